// simgen rewrites the current working tree of irai/packet into a `go build -overlay` in which
// every source of nondeterminism is routed to the simulator (see DESIGN.md section 2.1).
// /repo is never modified: rewritten files and overlay.json are written to -out.
package main

import (
	"bytes"
	"encoding/json"
	"flag"
	"fmt"
	"go/ast"
	"go/format"
	"go/token"
	"go/types"
	"os"
	"path/filepath"
	"sort"
	"strconv"
	"strings"

	"golang.org/x/tools/go/ast/astutil"
	"golang.org/x/tools/go/packages"
)

const simrtName = "simrt_"
const simfsName = "simfs_"
const simBase = "verif/sim/"

var swaps = map[string]string{
	"sync":        simBase + "simsync",
	"sync/atomic": simBase + "simatomic",
	"time":        simBase + "simtime",
	"math/rand":   simBase + "simrand",
	"crypto/rand": simBase + "simcrand",
	"fmt":         simBase + "simfmt",
}

// io/ioutil is swapped only where the lease file lives.
var ioutilPkgs = map[string]bool{"github.com/irai/packet/handlers/dhcp4_spoofer": true}

type site struct {
	ID   int    `json:"id"`
	Pos  string `json:"pos"`
	Kind string `json:"kind"`
	Func string `json:"func"`
}

type gen struct {
	fset    *token.FileSet
	sites   []site
	counter int
	repo    string
	warn    []string
}

func fail(format string, a ...interface{}) {
	fmt.Fprintf(os.Stderr, "simgen: "+format+"\n", a...)
	os.Exit(2)
}

func main() {
	repo := flag.String("repo", "/repo", "repository root")
	out := flag.String("out", "", "output directory")
	hints := flag.Bool("hints", true, "insert yield hints")
	flag.Parse()
	if *out == "" {
		fail("-out required")
	}
	patterns := []string{".", "./fastlog", "./handlers/arp_spoofer", "./handlers/dhcp4_spoofer", "./handlers/icmp_spoofer", "./handlers/dns_naming"}
	cfg := &packages.Config{
		Mode: packages.NeedName | packages.NeedFiles | packages.NeedCompiledGoFiles | packages.NeedSyntax |
			packages.NeedTypes | packages.NeedTypesInfo | packages.NeedImports | packages.NeedDeps,
		Dir:        *repo,
		BuildFlags: []string{"-tags=verif", "-mod=mod"},
		Env:        append(os.Environ(), "GOFLAGS=-mod=mod", "GOPROXY=off", "GOSUMDB=off"),
	}
	pkgs, err := packages.Load(cfg, patterns...)
	if err != nil {
		fail("load: %v", err)
	}
	bad := false
	for _, p := range pkgs {
		for _, e := range p.Errors {
			fmt.Fprintf(os.Stderr, "simgen: %s: %v\n", p.PkgPath, e)
			bad = true
		}
	}
	if bad {
		fail("the tree does not type-check")
	}
	if err := os.MkdirAll(*out, 0o755); err != nil {
		fail("%v", err)
	}
	g := &gen{repo: *repo}
	overlay := map[string]string{}
	sort.Slice(pkgs, func(i, j int) bool { return pkgs[i].PkgPath < pkgs[j].PkgPath })
	for _, p := range pkgs {
		g.fset = p.Fset
		dir := filepath.Join(*out, strings.ReplaceAll(p.PkgPath, "/", "_"))
		os.MkdirAll(dir, 0o755)
		for i, f := range p.Syntax {
			name := p.CompiledGoFiles[i]
			if !strings.HasSuffix(name, ".go") {
				continue
			}
			withHints := *hints && !strings.HasSuffix(p.PkgPath, "/fastlog")
			g.rewriteFile(p, f, withHints)
			var buf bytes.Buffer
			if err := format.Node(&buf, p.Fset, f); err != nil {
				fail("print %s: %v", name, err)
			}
			dst := filepath.Join(dir, filepath.Base(name))
			if err := os.WriteFile(dst, buf.Bytes(), 0o644); err != nil {
				fail("%v", err)
			}
			overlay[name] = dst
		}
	}
	ob, _ := json.MarshalIndent(map[string]interface{}{"Replace": overlay}, "", " ")
	os.WriteFile(filepath.Join(*out, "overlay.json"), ob, 0o644)
	sb, _ := json.Marshal(g.sites)
	os.WriteFile(filepath.Join(*out, "sites.json"), sb, 0o644)
	for _, w := range g.warn {
		fmt.Fprintln(os.Stderr, "simgen: warning:", w)
	}
	fmt.Printf("simgen: %d packages, %d files, %d sites\n", len(pkgs), len(overlay), len(g.sites))
}

func (g *gen) newSite(pos token.Pos, kind, fn string) int {
	g.counter++
	p := g.fset.Position(pos)
	rel, _ := filepath.Rel(g.repo, p.Filename)
	g.sites = append(g.sites, site{ID: g.counter, Pos: rel + ":" + strconv.Itoa(p.Line), Kind: kind, Func: fn})
	return g.counter
}

func ident(s string) *ast.Ident { return ast.NewIdent(s) }

func rtCall(fn string, args ...ast.Expr) *ast.CallExpr {
	return &ast.CallExpr{Fun: &ast.SelectorExpr{X: ident(simrtName), Sel: ident(fn)}, Args: args}
}

func intLit(i int) ast.Expr {
	if i < 0 {
		return &ast.UnaryExpr{Op: token.SUB, X: &ast.BasicLit{Kind: token.INT, Value: strconv.Itoa(-i)}}
	}
	return &ast.BasicLit{Kind: token.INT, Value: strconv.Itoa(i)}
}

func define(name string, e ast.Expr) ast.Stmt {
	return &ast.AssignStmt{Lhs: []ast.Expr{ident(name)}, Tok: token.DEFINE, Rhs: []ast.Expr{e}}
}

func isSimple(e ast.Expr) bool {
	switch x := e.(type) {
	case *ast.Ident:
		return true
	case *ast.SelectorExpr:
		return isSimple(x.X)
	case *ast.ParenExpr:
		return isSimple(x.X)
	case *ast.StarExpr:
		return isSimple(x.X)
	}
	return false
}

func (g *gen) rewriteFile(p *packages.Package, f *ast.File, hints bool) {
	info := p.TypesInfo
	// 1. imports
	for _, is := range f.Imports {
		path, _ := strconv.Unquote(is.Path.Value)
		np, ok := swaps[path]
		if !ok && path == "io/ioutil" && ioutilPkgs[p.PkgPath] {
			np, ok = simBase+"simioutil", true
		}
		if !ok {
			continue
		}
		if is.Name == nil {
			base := path[strings.LastIndex(path, "/")+1:]
			is.Name = ident(base)
		}
		is.Path.Value = strconv.Quote(np)
	}

	skip := map[ast.Node]bool{}      // comm statements of selects: handled by the select rewrite
	recvCall := map[ast.Expr]bool{}  // calls produced from `<-ch`
	labeled := map[ast.Stmt]bool{}   // statements that carry a label
	selCount := 0
	usesSimfs := false
	var funcStack []string
	curFunc := func() string {
		if len(funcStack) == 0 {
			return ""
		}
		return funcStack[len(funcStack)-1]
	}

	pre := func(c *astutil.Cursor) bool {
		switch n := c.Node().(type) {
		case *ast.FuncDecl:
			name := n.Name.Name
			if n.Recv != nil && len(n.Recv.List) > 0 {
				name = types.ExprString(n.Recv.List[0].Type) + "." + name
			}
			funcStack = append(funcStack, name)
		case *ast.LabeledStmt:
			labeled[n.Stmt] = true
		case *ast.SelectStmt:
			for _, cl := range n.Body.List {
				cc := cl.(*ast.CommClause)
				switch s := cc.Comm.(type) {
				case *ast.SendStmt:
					skip[s] = true
				case *ast.ExprStmt:
					skip[ast.Unparen(s.X)] = true
				case *ast.AssignStmt:
					skip[ast.Unparen(s.Rhs[0])] = true
					skip[s] = true
				}
			}
		}
		return true
	}

	post := func(c *astutil.Cursor) bool {
		switch n := c.Node().(type) {
		case *ast.FuncDecl:
			if hints && n.Body != nil {
				id := g.newSite(n.Pos(), "func", curFunc())
				n.Body.List = append([]ast.Stmt{&ast.ExprStmt{X: rtCall("Y", intLit(id))}}, n.Body.List...)
			}
			funcStack = funcStack[:len(funcStack)-1]

		case *ast.ForStmt:
			if hints {
				id := g.newSite(n.Pos(), "loop", curFunc())
				n.Body.List = append([]ast.Stmt{&ast.ExprStmt{X: rtCall("Y", intLit(id))}}, n.Body.List...)
			}

		case *ast.GoStmt:
			c.Replace(g.rewriteGo(info, n, curFunc()))

		case *ast.SendStmt:
			if skip[n] {
				return true
			}
			c.Replace(&ast.ExprStmt{X: rtCall("Send", n.Chan, n.Value)})

		case *ast.UnaryExpr:
			if n.Op != token.ARROW || skip[n] {
				return true
			}
			call := rtCall("Recv", n.X)
			recvCall[call] = true
			c.Replace(call)

		case *ast.AssignStmt:
			if skip[n] {
				return true
			}
			if len(n.Lhs) == 2 && len(n.Rhs) == 1 {
				if call, ok := ast.Unparen(n.Rhs[0]).(*ast.CallExpr); ok && recvCall[call] {
					call.Fun.(*ast.SelectorExpr).Sel = ident("Recv2")
				}
			}

		case *ast.ValueSpec:
			if len(n.Names) == 2 && len(n.Values) == 1 {
				if call, ok := ast.Unparen(n.Values[0]).(*ast.CallExpr); ok && recvCall[call] {
					call.Fun.(*ast.SelectorExpr).Sel = ident("Recv2")
				}
			}

		case *ast.CallExpr:
			if id, ok := n.Fun.(*ast.Ident); ok && id.Name == "close" {
				if _, isB := info.Uses[id].(*types.Builtin); isB {
					n.Fun = &ast.SelectorExpr{X: ident(simrtName), Sel: ident("Close")}
				}
			}
			if sel, ok := n.Fun.(*ast.SelectorExpr); ok {
				if fn, ok := info.Uses[sel.Sel].(*types.Func); ok && fn.Pkg() != nil && fn.Pkg().Path() == "syscall" && fn.Name() == "Kill" {
					n.Fun = &ast.SelectorExpr{X: ident(simrtName), Sel: ident("Kill")}
				}
				// file operations of the lease-file package go to the simulated disk
				if fn, ok := info.Uses[sel.Sel].(*types.Func); ok && fn.Pkg() != nil && fn.Pkg().Path() == "os" && ioutilPkgs[p.PkgPath] {
					switch fn.Name() {
					case "ReadFile", "WriteFile", "Rename", "Remove", "Create", "Open", "OpenFile":
						// the last three return *simioutil.File, which has the usual *os.File methods
						n.Fun = &ast.SelectorExpr{X: ident(simfsName), Sel: ident(fn.Name())}
						usesSimfs = true
					}
				}
			}

		case *ast.RangeStmt:
			tv, ok := info.Types[n.X]
			if !ok {
				fail("%s: no type for range expression", g.fset.Position(n.Pos()))
			}
			switch tv.Type.Underlying().(type) {
			case *types.Map:
				c.Replace(g.rewriteMapRange(n, labeled[n], hints, curFunc()))
			case *types.Chan:
				c.Replace(g.rewriteChanRange(n, labeled[n], hints, curFunc()))
			default:
				if hints {
					id := g.newSite(n.Pos(), "loop", curFunc())
					n.Body.List = append([]ast.Stmt{&ast.ExprStmt{X: rtCall("Y", intLit(id))}}, n.Body.List...)
				}
			}

		case *ast.SelectStmt:
			if labeled[n] {
				fail("%s: labeled select is not supported", g.fset.Position(n.Pos()))
			}
			selCount++
			c.Replace(g.rewriteSelect(n, fmt.Sprintf("%d_%d", g.counter, selCount)))
		}
		return true
	}
	astutil.Apply(f, pre, post)

	// Drop ordinary comments (their positions no longer match the rewritten tree); keep
	// directives and everything before the package clause.
	var kept []*ast.CommentGroup
	for _, cg := range f.Comments {
		keep := cg.End() < f.Package
		for _, c := range cg.List {
			if strings.HasPrefix(c.Text, "//go:") {
				keep = true
			}
		}
		if keep {
			kept = append(kept, cg)
		}
	}
	f.Comments = kept

	// import of the runtime + keep-alive
	astutil.AddNamedImport(g.fset, f, simrtName, simBase+"simrt")
	if usesSimfs {
		astutil.AddNamedImport(g.fset, f, simfsName, simBase+"simioutil")
	}
	f.Decls = append(f.Decls, &ast.GenDecl{Tok: token.VAR, Specs: []ast.Spec{
		&ast.ValueSpec{Names: []*ast.Ident{ident("_")}, Values: []ast.Expr{&ast.SelectorExpr{X: ident(simrtName), Sel: ident("Y")}}},
	}})
}

func (g *gen) rewriteGo(info *types.Info, n *ast.GoStmt, fn string) ast.Stmt {
	id := g.newSite(n.Pos(), "go", fn)
	call := n.Call
	var pre []ast.Stmt
	fun := call.Fun
	if _, isLit := ast.Unparen(fun).(*ast.FuncLit); !isLit {
		// function value (incl. method values) is evaluated by the go statement
		if tv, ok := info.Types[fun]; ok && tv.IsBuiltin() {
			fail("%s: go with a builtin is not supported", g.fset.Position(n.Pos()))
		}
		name := fmt.Sprintf("_gf%d", id)
		pre = append(pre, define(name, fun))
		fun = ident(name)
	}
	args := make([]ast.Expr, len(call.Args))
	for i, a := range call.Args {
		tv := info.Types[a]
		if tv.Value != nil || tv.IsNil() { // constants and nil: keep in place (typing)
			args[i] = a
			continue
		}
		name := fmt.Sprintf("_ga%d_%d", id, i)
		pre = append(pre, define(name, a))
		args[i] = ident(name)
	}
	inner := &ast.CallExpr{Fun: fun, Args: args, Ellipsis: call.Ellipsis}
	lit := &ast.FuncLit{Type: &ast.FuncType{Params: &ast.FieldList{}}, Body: &ast.BlockStmt{List: []ast.Stmt{&ast.ExprStmt{X: inner}}}}
	stmts := append(pre, &ast.ExprStmt{X: rtCall("Go", intLit(id), lit)})
	return &ast.BlockStmt{List: stmts}
}

func (g *gen) rewriteMapRange(n *ast.RangeStmt, isLabeled bool, hints bool, fn string) ast.Stmt {
	id := g.newSite(n.Pos(), "maprange", fn)
	m := n.X
	var hoist ast.Stmt
	if !isSimple(m) {
		if isLabeled {
			fail("%s: labeled range over a non-trivial map expression is not supported", g.fset.Position(n.Pos()))
		}
		name := fmt.Sprintf("_rm%d", id)
		hoist = define(name, m)
		m = ident(name)
	}
	ast.Inspect(n.Body, func(x ast.Node) bool {
		if _, ok := x.(*ast.FuncLit); ok && n.Tok == token.DEFINE {
			g.warn = append(g.warn, fmt.Sprintf("%s: closure inside a rewritten map range (loop variables become per-iteration)", g.fset.Position(n.Pos())))
		}
		return true
	})
	kname := fmt.Sprintf("_rk%d", id)
	vname := fmt.Sprintf("_rv%d", id)
	okname := fmt.Sprintf("_rok%d", id)
	var body []ast.Stmt
	if hints {
		body = append(body, &ast.ExprStmt{X: rtCall("Y", intLit(id))})
	}
	needV := n.Value != nil && !isBlank(n.Value)
	lhsV := ast.Expr(ident("_"))
	if needV {
		lhsV = ident(vname)
	}
	body = append(body,
		&ast.AssignStmt{Lhs: []ast.Expr{lhsV, ident(okname)}, Tok: token.DEFINE,
			Rhs: []ast.Expr{&ast.IndexExpr{X: m, Index: ident(kname)}}},
		&ast.IfStmt{Cond: &ast.UnaryExpr{Op: token.NOT, X: ident(okname)}, Body: &ast.BlockStmt{List: []ast.Stmt{&ast.BranchStmt{Tok: token.CONTINUE}}}},
	)
	var lhs, rhs []ast.Expr
	if n.Key != nil && !isBlank(n.Key) {
		lhs = append(lhs, n.Key)
		rhs = append(rhs, ident(kname))
	}
	if needV {
		lhs = append(lhs, n.Value)
		rhs = append(rhs, ident(vname))
	}
	if len(lhs) > 0 {
		body = append(body, &ast.AssignStmt{Lhs: lhs, Tok: n.Tok, Rhs: rhs})
		if n.Tok == token.DEFINE { // silence "declared and not used" exactly like range does not
			for _, l := range lhs {
				body = append(body, &ast.AssignStmt{Lhs: []ast.Expr{ident("_")}, Tok: token.ASSIGN, Rhs: []ast.Expr{l}})
			}
		}
	}
	body = append(body, n.Body.List...)
	loop := &ast.RangeStmt{Key: ident("_"), Value: ident(kname), Tok: token.DEFINE,
		X: rtCall("MapKeys", m), Body: &ast.BlockStmt{List: body}}
	if hoist != nil {
		return &ast.BlockStmt{List: []ast.Stmt{hoist, loop}}
	}
	return loop
}

func isBlank(e ast.Expr) bool {
	id, ok := e.(*ast.Ident)
	return ok && id.Name == "_"
}

func (g *gen) rewriteChanRange(n *ast.RangeStmt, isLabeled bool, hints bool, fn string) ast.Stmt {
	id := g.newSite(n.Pos(), "chanrange", fn)
	ch := n.X
	var hoist ast.Stmt
	if !isSimple(ch) {
		if isLabeled {
			fail("%s: labeled range over a non-trivial channel expression is not supported", g.fset.Position(n.Pos()))
		}
		name := fmt.Sprintf("_rc%d", id)
		hoist = define(name, ch)
		ch = ident(name)
	}
	okname := fmt.Sprintf("_rok%d", id)
	vname := fmt.Sprintf("_rv%d", id)
	var body []ast.Stmt
	if hints {
		body = append(body, &ast.ExprStmt{X: rtCall("Y", intLit(id))})
	}
	need := n.Key != nil && !isBlank(n.Key)
	lhs := ast.Expr(ident("_"))
	if need {
		lhs = ident(vname)
	}
	body = append(body,
		&ast.AssignStmt{Lhs: []ast.Expr{lhs, ident(okname)}, Tok: token.DEFINE, Rhs: []ast.Expr{rtCall("Recv2", ch)}},
		&ast.IfStmt{Cond: &ast.UnaryExpr{Op: token.NOT, X: ident(okname)}, Body: &ast.BlockStmt{List: []ast.Stmt{&ast.BranchStmt{Tok: token.BREAK}}}},
	)
	if need {
		body = append(body, &ast.AssignStmt{Lhs: []ast.Expr{n.Key}, Tok: n.Tok, Rhs: []ast.Expr{ident(vname)}})
	}
	body = append(body, n.Body.List...)
	loop := &ast.ForStmt{Body: &ast.BlockStmt{List: body}}
	if hoist != nil {
		return &ast.BlockStmt{List: []ast.Stmt{hoist, loop}}
	}
	return loop
}

func (g *gen) rewriteSelect(n *ast.SelectStmt, tag string) ast.Stmt {
	var stmts []ast.Stmt
	type cinfo struct{ c, e, v string }
	var cases []cinfo
	hasDefault := false
	idx := 0
	for _, cl := range n.Body.List {
		cc := cl.(*ast.CommClause)
		if cc.Comm == nil {
			hasDefault = true
			continue
		}
		ci := cinfo{c: fmt.Sprintf("_sc%s_%d", tag, idx), e: fmt.Sprintf("_se%s_%d", tag, idx), v: fmt.Sprintf("_sv%s_%d", tag, idx)}
		switch s := cc.Comm.(type) {
		case *ast.SendStmt:
			stmts = append(stmts, define(ci.c, s.Chan), define(ci.v, s.Value))
			s.Chan = ident(ci.e)
			s.Value = ident(ci.v)
		case *ast.ExprStmt:
			u := ast.Unparen(s.X).(*ast.UnaryExpr)
			stmts = append(stmts, define(ci.c, u.X))
			u.X = ident(ci.e)
		case *ast.AssignStmt:
			u := ast.Unparen(s.Rhs[0]).(*ast.UnaryExpr)
			stmts = append(stmts, define(ci.c, u.X))
			u.X = ident(ci.e)
		}
		cc.Body = append([]ast.Stmt{&ast.ExprStmt{X: rtCall("SelectDone")}}, cc.Body...)
		cases = append(cases, ci)
		idx++
	}
	sel := "_sel" + tag
	label := "_selretry" + tag
	iv := "_si" + tag
	defLit := ident("false")
	if hasDefault {
		defLit = ident("true")
	}
	stmts = append(stmts, define(sel, rtCall("SelectStart", intLit(len(cases)), defLit)))
	var inner []ast.Stmt
	inner = append(inner, define(iv, rtCall("SelectNext", &ast.UnaryExpr{Op: token.AND, X: ident(sel)})))
	inner = append(inner, &ast.AssignStmt{Lhs: []ast.Expr{ident("_")}, Tok: token.ASSIGN, Rhs: []ast.Expr{ident(iv)}})
	for i, ci := range cases {
		inner = append(inner, define(ci.e, ident(ci.c)))
		inner = append(inner, &ast.IfStmt{
			Cond: &ast.BinaryExpr{X: ident(iv), Op: token.NEQ, Y: intLit(i)},
			Body: &ast.BlockStmt{List: []ast.Stmt{&ast.AssignStmt{Lhs: []ast.Expr{ident(ci.e)}, Tok: token.ASSIGN, Rhs: []ast.Expr{ident("nil")}}}},
		})
	}
	gotoRetry := &ast.BranchStmt{Tok: token.GOTO, Label: ident(label)}
	if hasDefault {
		for _, cl := range n.Body.List {
			cc := cl.(*ast.CommClause)
			if cc.Comm == nil {
				again := &ast.IfStmt{Cond: rtCall("SelectMore", &ast.UnaryExpr{Op: token.AND, X: ident(sel)}),
					Body: &ast.BlockStmt{List: []ast.Stmt{gotoRetry}}}
				cc.Body = append([]ast.Stmt{again}, cc.Body...)
			}
		}
	} else {
		n.Body.List = append(n.Body.List, &ast.CommClause{Body: []ast.Stmt{gotoRetry}})
	}
	inner = append(inner, n)
	stmts = append(stmts, &ast.LabeledStmt{Label: ident(label), Stmt: inner[0]})
	stmts = append(stmts, inner[1:]...)
	return &ast.BlockStmt{List: stmts}
}
