#!/bin/bash
# usage: mutants_all.sh [wall] [dir...] : run the property's quick check against every seeded change, one after another.
cd /verif
wall=${1:-70s}; shift
dirs=${*:-$(ls -d seeded/*/)}
for d in $dirs; do
  d=${d%/}; name=$(basename $d); prop=${name%%-*}
  out=$(./tools/trymutant.sh $d/patch.diff $prop $wall 2>&1)
  rc=$(echo "$out" | grep -o "TRYMUTANT: property=$prop exit=[0-9]*" | grep -o "[0-9]*$")
  sigs=$(echo "$out" | grep "^vcheck: $prop\.\|^vcheck: C[0-9][0-9]\." | sed 's/^vcheck: //' | cut -c1-260 | sed 's/: .*//' | sort -u | paste -sd';')
  echo "MUTANT $name exit=$rc sigs=$sigs"
done
