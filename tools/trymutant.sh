#!/bin/bash
# usage: trymutant.sh <patch.diff> <property> [wall]
# Applies a seeded change to /repo, runs the property's quick check, reverts. Prints the verdict.
set -u
patch="$(readlink -f "$1")"; prop="$2"; wall="${3:-60s}"
cd /verif
if ! git -C /repo diff --quiet; then echo "TRYMUTANT: /repo is dirty, refusing"; exit 3; fi
if ! git -C /repo apply "$patch"; then echo "TRYMUTANT: patch does not apply"; exit 3; fi
out=$(VCHECK_WALL=$wall ./bin/vcheck run "$prop" 2>&1); code=$?
git -C /repo checkout -- .
echo "$out" | grep -E "^(VIOLATION|KNOWN-FINDING|vcheck: (C[0-9]+\.|property=|INFRA|DETERMINISM|minimised))" | cut -c1-700
echo "TRYMUTANT: property=$prop exit=$code"
# replay files produced by a seeded change do not belong in the tree
git -C /verif status --porcelain replays | awk '{print $2}' | while read f; do rm -f "/verif/$f"; done
# the evidence file now describes the changed tree: restore the committed one
git -C /verif checkout -q -- "evidence/$prop.json" 2>/dev/null
exit $code
