#!/bin/bash
# usage: confirm_mutant.sh <worktree> <n>
# Confirms a seeded change in its scratch worktree: demo passes clean, fails patched; existing tests pass patched.
set -u
wt="$1"; n="$2"; d="$wt/mutants/$n"
export GOFLAGS=-mod=mod GOPROXY=off GOSUMDB=off GOTOOLCHAIN=local
cd "$wt" || exit 3
git checkout -q --detach main 2>/dev/null; git checkout -q -- . ; find . -name zz_demo_test.go -not -path "./mutants/*" -delete
pk=$(grep -m1 "^package" $d/zz_demo_test.go | awk '{print $2}')
pk=${pk%_test}
case "$pk" in
  packet) dir=. ;;
  *) dir=./handlers/$pk ;;
esac
tests=$(grep -o "^func Test[A-Za-z0-9_]*" $d/zz_demo_test.go | sed 's/func //' | paste -sd'|')
race=""; grep -qi "\-race" $d/README.md && race="-race"
cp $d/zz_demo_test.go $dir/zz_demo_test.go
clean=$(timeout 600 go test -vet=off -count=1 -timeout 5m -run "$tests" $dir 2>&1 | tail -1)
git apply $d/patch.diff || { echo "CONFIRM $wt/$n: patch does not apply"; exit 3; }
patched=$(timeout 600 go test -vet=off -count=1 -timeout 5m -run "$tests" $dir 2>&1 | tail -1)
if [ -n "$race" ] && echo "$patched" | grep -q "^ok"; then patched=$(timeout 900 go test -race -vet=off -count=1 -timeout 10m -run "$tests" $dir 2>&1 | tail -1); fi
rm -f $dir/zz_demo_test.go
runpat=""; [ "$pk" = dns_naming ] && runpat="-run TestDNSHandler_ProcessDNS|TestMDNSHandler_PTR|TestMDNSHandler_Sonos"
existing=""; failed=""
for attempt in 1 2 3; do
  out=$(timeout 1200 go test -vet=off -count=1 -timeout 15m $runpat $dir 2>&1)
  existing=$(echo "$out" | tail -1)
  echo "$existing" | grep -q "^ok" && break
  failed="$failed [attempt $attempt failed: $(echo "$out" | grep -o '^--- FAIL: [A-Za-z0-9_/]*' | sort -u | paste -sd, )]"
done
existing="$existing$failed"
build=$(go build ./... 2>&1 | tail -1)
git checkout -q -- . ; git checkout -q handlers/dhcp4_spoofer/testDHCPConfig.yml 2>/dev/null
echo "CONFIRM $(basename $wt)/$n pkg=$pk | clean-demo: $clean | patched-demo: $patched | existing(patched): $existing | build: ${build:-ok}"
