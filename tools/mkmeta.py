#!/usr/bin/env python3
"""Writes /verif/seeded/<id>/meta.json for every seeded change and prints the DESIGN.md table.

usage: mkmeta.py <mutants_all log> [<confirm log> ...]
The log lines are produced by tools/mutants_all.sh ("MUTANT <id> exit=<n> sigs=<...>") and by
tools/confirm_mutant.sh ("CONFIRM ...").
"""
import json, os, re, subprocess, sys

root = '/verif/seeded'
# seeded changes that the check of their own property cannot see but another property's check does
OTHER = {'C05-7': {'check': './bin/vcheck run C09', 'signature': 'C09.race|packet.(*Session).onlineTransition <-> packet.(*Session).purge (also ... <-> packet.(*Session).makeOffline)',
                   'why': 'the change is a lock released too early: it breaks the C05 invariant only under a concurrent purge; the C05 check is sequential, the concurrent pattern is C09\'s'}}
res = {}
for l in open(sys.argv[1]):
    m = re.match(r'MUTANT (\S+) exit=(\d*) sigs=(.*)', l.strip())
    if m:
        res[m.group(1)] = (m.group(2), [s for s in m.group(3).split(';') if s])

WAVE3 = set("""C04-6 C04-7 C13-4 C13-5 C13-6 C14-6 C14-7 C14-8 C18-6 C18-7 C19-6 C19-7 C19-8 C19-9 C06-5 C06-6 C06-7 C06-8
C11-6 C11-7 C11-8 C12-6 C12-7 C12-8 C05-5 C05-6 C05-7 C05-8 C07-6 C07-7 C07-8 C07-9 C09-5 C09-6 C09-7 C09-8 C10-5 C10-6 C10-7""".split())
WAVE4 = set("C06-9 C06-10 C04-8 C19-10 C13-7 C18-8 C18-9 C11-9 C14-9 C09-9".split())
WAVE5 = set("C10-8 C13-8 C04-9 C12-9 C14-10 C06-11".split())
# wave-3 agents that, against their instructions, read files under /verif (titles of earlier seeded
# changes; one read a scenario generator) before choosing their changes
PEEKED = {'C07': 'read the titles of the earlier /verif/seeded/C07-* changes to avoid repeating them',
          'C09': 'read the titles of the earlier /verif/seeded/C09-* changes to avoid repeating them',
          'C10': 'read /verif/sim/scen/ndspoof.go and aimed change C10-7 at a gap it saw there (route-information prefix lengths)'}


def wave(n):
    if n in WAVE5:
        return 5
    if n in WAVE4:
        return 4
    if n in WAVE3:
        return 3
    return 1 if int(n.split('-')[1]) <= 2 else 2


def origin(n):
    s = 'sub-agent wave %d: given only the property text and a scratch worktree of /repo' % wave(n)
    if wave(n) == 3 and n.split('-')[0] in PEEKED:
        s += '; this agent ' + PEEKED[n.split('-')[0]]
    return s



def section(text, words):
    """text of the first markdown section whose heading contains one of words"""
    lines = text.split('\n')
    out, on = [], False
    for l in lines:
        if l.startswith('#'):
            if on:
                break
            on = any(w in l.lower() for w in words)
            continue
        if on:
            out.append(l)
    s = ' '.join(x.strip() for x in out if x.strip())
    return s


rows = []
for name in sorted(os.listdir(root)):
    d = os.path.join(root, name)
    if not os.path.isdir(d):
        continue
    prop = name.split('-')[0]
    readme = open(os.path.join(d, 'README.md')).read()
    title = readme.split('\n')[0].lstrip('# ').strip()
    title = re.sub(r'^(C\d+ )?(mutant|Mutant|seeded change|change) \d+\s*[-:]\s*', '', title)
    files = re.findall(r'^\+\+\+ b/(\S+)', open(os.path.join(d, 'patch.diff')).read(), re.M)
    needs = section(readme, ['needed', 'manifest', 'trigger'])
    clause = section(readme, ['clause'])
    demo_pkg = re.search(r'^package (\w+)', open(os.path.join(d, 'zz_demo_test.go')).read(), re.M).group(1)
    code, sigs = res.get(name, ('', []))
    other = OTHER.get(name)
    oracles = sorted(set(s.split('|')[0] for s in sigs))
    meta = {
        'id': name,
        'property': prop,
        'origin': origin(name),
        'change': title,
        'files': files,
        'clause_broken': clause[:900],
        'needs_to_manifest': needs[:1200],
        'demonstration': 'zz_demo_test.go (package %s; copy next to the patched package). Passes on the unchanged tree, fails with patch.diff applied' % demo_pkg,
        'confirmed_by': [
            'tools/confirm_mutant.sh in a scratch worktree at the current /repo HEAD: demo passes clean, demo fails patched, go build ./... ok, existing tests of the touched package pass patched (known flaky TestHandler_SignalNICStopped / Test_requestExhaust retried)',
            'tools/trymutant.sh seeded/%s/patch.diff %s 70s: git -C /repo apply, ./bin/vcheck run %s (quick tier, exploration budget 70 s), git -C /repo checkout -- .' % (name, prop, prop),
        ],
        'check_exit_code': int(code) if code else None,
        'detected': code == '1',
        'detected_by': {'check': './bin/vcheck run ' + prop, 'oracles': oracles, 'signatures': sigs[:8]},
    }
    if other:
        meta['detected_by_other_check'] = other
    json.dump(meta, open(os.path.join(d, 'meta.json'), 'w'), indent=1)
    verdict = 'yes' if code == '1' else ('NO (exit %s)' % code)
    if code != '1' and other:
        verdict = 'no; by `vcheck run %s`' % other['check'].split()[-1]
    rows.append((name, title, ', '.join(files), verdict, ', '.join(o.split('.', 1)[1] if '.' in o else o for o in oracles)))

print('| seeded change | what it does | file | caught by `vcheck run <prop>` (quick) | oracle(s) |')
print('|---|---|---|---|---|')
for r in rows:
    print('| %s | %s | %s | %s | %s |' % r)
