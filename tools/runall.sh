#!/bin/bash
# Run the quick (or, with VERIF_TIER=thorough, thorough) check of every claimed property and summarise.
cd /verif
export GOFLAGS=-mod=mod GOPROXY=off GOSUMDB=off GOTOOLCHAIN=local
ids=${*:-$(python3 -c "import json;print(' '.join(c['property_id'] for c in json.load(open('MANIFEST.json'))['checks']))")}
for id in $ids; do
  s=$(date +%s)
  ./bin/vcheck run $id > /tmp/runall-$id.log 2>&1
  rc=$?
  echo "$id exit=$rc wall=$(( $(date +%s)-s ))s known=$(grep -c '^KNOWN-FINDING' /tmp/runall-$id.log) violations=$(grep -c '^VIOLATION' /tmp/runall-$id.log) :: $(grep '^vcheck: property=' /tmp/runall-$id.log | tail -1)"
done
