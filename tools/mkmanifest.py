#!/usr/bin/env python3
"""Regenerates /verif/MANIFEST.json. Edit CLAIMED / NA below, then run this script."""
import json, subprocess

def hooks_commits():
    out = subprocess.run(["git", "-C", "/repo", "log", "--format=%H", "--grep=verif hooks"], capture_output=True, text=True).stdout.split()
    return out

TECH = "deterministic simulation with fault injection (seeded schedule/fault tape, virtual clock, simulated wire and disk; oracle = %s)"

CLAIMED = {
 "C04": dict(level="exploration", oracle="step-by-step reference model of host tracking",
   text="Seeded search over histories of frames, DHCP updates and virtual-time advances against the real Session under the simulator: after every step FindIP/GetHosts/IPAddrs/FindByMAC/FindMACEntry must equal an executable model written from the property. The real minute ticker and purge goroutine run in virtual time (61-minute and 24-hour deadlines cost microseconds). Sampling of histories, not enumeration.",
   ref="DESIGN.md section 4 (C04)"),
 "C05": dict(level="exploration", oracle="structural table invariant at every quiescent point",
   text="The structural invariant over HostTable/MACTable (index, ownership, uniqueness, online implication) is evaluated under the session read lock after every operation of every simulated history, including re-binding, delete-of-middle-element and purge orders; PrintTable's self-check is exercised. Sampling of histories and schedules.",
   ref="DESIGN.md section 4 (C05)"),
 "C06": dict(level="exploration", oracle="expected-notification model, multiset per step plus ordering rule",
   text="The notification channel is drained after every step of every simulated history and compared, as a multiset with the offline-before-online ordering rule, with what the model derived from the property expects: exactly-once online/offline/name notifications whose fields equal the tracked state. Purge runs through the real ticker in virtual time.",
   ref="DESIGN.md section 4 (C06)"),
 "C11": dict(level="exploration", oracle="conservative holder table over decoded replies + reserved-address predicate",
   text="Simulated DHCP clients (every transmission an explicit operation with substitutable requested-IP/server-id/xid/client-id/ciaddr/source fields) drive the real server through lossy/duplicating histories with capture toggles, foreign hosts on pool addresses, virtual-time leaps past offer and lease expiry and MinuteTicker calls, in deliberately tiny pools. Every OFFER/ACK decoded by the independent decoder is checked against a holder table that ends a holding at the earliest plausible moment, and against the reserved-address rules. Sampling of histories.",
   ref="DESIGN.md section 4 (C11)"),
 "C12": dict(level="exploration", oracle="per-reply conformance oracle (capture state sampled at delivery)",
   text="Same simulated histories as C11 for all three modes and several prefix/DNS configurations: every OFFER/ACK must lie in the subnet selected by the capture state sampled when the request was delivered, carry the matching router/DNS/mask (mask before router in wire order), our server id, a lease time and the echoed xid/chaddr; an ACK must confirm the transaction's offer or the client's current unexpired lease; un-honourable requests must not be acknowledged.",
   ref="DESIGN.md section 4 (C12)"),
 "C18": dict(level="fault_enumeration", oracle="loaded bindings vs bindings of the file before/after the interrupted disk operation; protocol probes after restart",
   text="DHCP histories run with the lease file on the simulated disk, which records every write/rename. For every explored history the crash-point space is then enumerated: every byte prefix of every write (complete for the last rewrites, strided for older ones in the quick tier, complete in the thorough tier) and every point between disk operations, plus single-byte substitutions, line deletions and duplications of the intact file and live ENOSPC/EIO faults. Each state is followed by a crash-restart (new Session and handler, only durable bytes survive) under a panic trap; loaded bindings must come from the file as it was before or after the interrupted operation, lie in the home subnet and carry a client id; after an intact restart renewals are acknowledged and held addresses are not offered to strangers. Histories are sampled; the crash points of each history are enumerated and counted.",
   ref="DESIGN.md section 4 (C18)"),
 "C13": dict(level="exploration", oracle="transport log x call log (event sequence numbers, virtual time): confinement, probe-reject conditions, periodicity, undo, close",
   text="Concurrent simulation of the real ARP handler: API tasks call StartHunt/StopHunt (repeated, overlapping, restart inside a cycle) while ARP-host nodes send requests, probes, announcements and replies and DHCP offers are recorded; 6 s spoof cycles run on the virtual clock under seeded interleavings and (in a share of runs) injected stalls. Every ARP frame written is classified by the independent decoder and checked against the call log: forged frames only to hunted hosts, forged replies only for router requests of hunted hosts, probe rejects only under the stated conditions; without stalls also one frame per cycle, a restoring frame within one cycle of StopHunt, silence after Close and no surviving spoof goroutine.",
   ref="DESIGN.md section 4 (C13)"),
 "C19": dict(level="exploration", oracle="per-ping oracle over the responder's delivery plan (identifier read from the ping's own echo request)",
   text="Concurrent simulation: 1-6 pinger tasks call Ping/Ping6 with timeouts from <=0 to >10 s while an echo responder inside the simulated wire answers each captured request after a chosen latency (before, at, after the deadline) or drops it, duplicates, answers with a foreign identifier, an echo request or a truncated message, and unsolicited replies with guessed identifiers arrive. nil iff a matching well-formed reply was delivered while pending (exact without stalls, one-directional with stalls), ErrTimeout exactly at the deadline, distinct identifiers for overlapping pings, no waiter left.",
   ref="DESIGN.md section 4 (C19)"),
 "C14": dict(level="exploration", oracle="forged-NA classification vs call log; learned router vs the reference decoder's reading of the advertisements sent",
   text="Concurrent simulation of the real ICMPv6 handler: API tasks call StartHunt/StopHunt with link-local, address-less, global and IPv4 targets while a router node sends router advertisements built from generated option lists (source LLA, prefixes, MTU, RDNSS, unknown types; boundary flags, preference and lifetimes) and hosts send neighbour solicitations; the 2-2.8 s spoof timers run on the virtual clock under seeded interleavings and, in a share of runs, stalls. Every neighbour advertisement written is decoded independently: forged ones must carry override and hop limit 255, go only to effectively hunted MACs, not precede the first RA, and stop after StopHunt/Close (virtual time, no stalls); after every settled RA FindRouter must equal the reference decoder's reading of one of the advertisements sent by that router.",
   ref="DESIGN.md section 4 (C14)"),
 "C07": dict(level="exploration", oracle="independent RFC decoder on every frame written + per-call intent checks",
   text="Every frame any library path writes to the simulated connection, in every scenario family of every property (host histories with real purge probes, DHCP histories incl. attack bursts and forced declines, ARP/NDP spoof loops, pings) plus a dedicated family that calls every exported send function with generated arguments under several NIC configurations, is decoded by a decoder written from the RFCs that shares no code with the library: complete and length-consistent at every layer, IPv4/ICMP/ICMPv6 checksums, hop limit 255 for link-local NDP, 33:33 mapping for IPv6 multicast, Ethernet source = interface MAC; the dedicated family also checks the fields against the caller's arguments. Pool buffers are poisoned on Get, so a field the encoder forgot to write shows up as garbage.",
   ref="DESIGN.md section 4 (C07)"),
 "C09": dict(level="exploration", oracle="panic trap, exact lock wait-for deadlock detector, race detector under controlled schedules, table invariants at settle points, goroutine-leak check, porcupine register linearizability",
   text="Concurrent simulation of the supported pattern with all four handlers: one packet loop, the real purge and NIC tickers, spoof loops, 2-6 API tasks issuing the property's query/control calls, traffic nodes (IPv4/IPv6/ARP/RA/DHCP/DNS/mDNS), wire faults and a closer that shuts everything down in the middle of the traffic. A seeded tape decides every interleaving, select order, map order, timer tie and stall. Oracles: no task panics; no lock cycle (exact for the modelled mutexes/rw-locks) and no task left on a lock; C05 invariants at quiescent points; 10 virtual minutes after Close no library goroutine is alive; the control-plane registers are linearizable (porcupine); and every third run executes under the Go race detector, whose happens-before view contains only the program's own synchronisation because the simulator's hand-off is invisible to it - each distinct pair of racing library functions is one finding.",
   ref="DESIGN.md section 4 (C09), 2.5"),
 "C10": dict(level="exploration", oracle="differential transcript equality: shared scribbled receive buffer vs private immutable buffers, same scenario and same tape",
   text="Every scenario of the host, DHCP (with lease file) and naming (DNS, mDNS, LLMNR, NBNS, SSDP, RA, DHCP names) families is executed twice with the same operation list and the same choice tape, in two processes: once with one receive buffer that is overwritten with garbage after every packet, once with a fresh buffer per packet. Notifications, every emitted frame and the final retained state (hosts and MAC entries with names, offers, routers, DNS table, lease file) must be identical. Exact repeatability of the simulation is what makes the comparison meaningful.",
   ref="DESIGN.md section 4 (C10)"),
}

NA = {
 "C01": "pure function of the input bytes (Parse totality); no schedule, clock, fault or history for a simulator to control",
 "C02": "pure decoder equivalence over input bytes; differential test of a pure function, not a simulation target",
 "C03": "pure encode/decode round trip over field values; no schedule, clock or fault",
 "C08": "totality of handlers over arbitrary input bytes; input-space property only",
 "C15": "pure arithmetic (RFC 1071 checksum) over byte strings",
 "C16": "aliasing and allocation count of a pure call; simulation decides nothing about allocation/performance",
 "C17": "pure DNS decoder equivalence and a pure fold (merge algebra); no time/schedule/fault in the property",
 "C20": "pure formatting functions over values",
}

PENDING = {p: "not claimed yet: the simulated check for this property is still under construction (see DESIGN.md section 4)"
           for p in ["C07", "C09", "C10", "C11", "C12", "C13", "C14", "C18", "C19"] if p not in CLAIMED}

ENV = "export GOFLAGS=-mod=mod GOPROXY=off GOSUMDB=off GOTOOLCHAIN=local; "
m = {
 "version": 1,
 "setup_cmd": ENV + "cd /verif && mkdir -p bin evidence replays && (cd simgen && go build -o ../bin/simgen .) && (cd sim && go build -tags verif -o ../bin/vcheck ./cmd/vcheck) && ./bin/vcheck warm",
 "hooks": {
  "guard": "verif",
  "enable": "go build -tags verif -overlay <scratch>/gen/overlay.json (overlay generated from /repo's current tree by bin/simgen at the start of every check)",
  "baseline_off_cmd": "cd /repo && go test -mod=mod -vet=off -count=1 -timeout 25m ./...",
  "source_commits": hooks_commits(),
  "add_only": True,
 },
 "engines": [
  {"name": "simrt+simgen", "path": "/verif/sim, /verif/simgen", "serves_properties": sorted(CLAIMED),
   "kind_free_text": "whole-library deterministic simulator: source rewriter (go build -overlay) + cooperative kernel (choice tape, virtual clock, simulated wire/disk) + per-property scenario generators, reference models and an independent packet decoder"},
 ],
 "checks": [],
 "notes": "Every check: ./bin/vcheck run <id> (VERIF_SEED, VERIF_TIER honoured; exit 0/1/2 as in DESIGN.md section 6). Replay: ./bin/vcheck replay <file>. Known findings: /verif/known_findings.json.",
 "not_applicable": [{"property_id": k, "reason": v} for k, v in sorted(NA.items())] + [{"property_id": k, "reason": v} for k, v in sorted(PENDING.items())],
}
for pid in sorted(CLAIMED):
    c = CLAIMED[pid]
    m["checks"].append({
     "property_id": pid,
     "quick_cmd": "./bin/vcheck run %s" % pid,
     "thorough_cmd": "VERIF_TIER=thorough ./bin/vcheck run %s" % pid,
     "evidence_file": "/verif/evidence/%s.json" % pid,
     "replay_cmd_template": "./bin/vcheck replay {path}",
     "engine": "simrt+simgen",
     "level_claimed": {"category": c["level"], "text": c["text"], "design_ref": c["ref"]},
     "level_note": "Trusted base: the simulator kernel and shims behave like a legal Go runtime (DESIGN.md section 9); simgen's rewrite preserves semantics; reference models/decoder are written from the property text and RFCs. Simulated nodes are models, not real stacks. Sampling, not proof.",
     "technique": TECH % c["oracle"],
    })
json.dump(m, open("/verif/MANIFEST.json", "w"), indent=1)
print("claimed:", sorted(CLAIMED), "na:", sorted(NA), "pending:", sorted(PENDING))
