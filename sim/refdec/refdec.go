// Package refdec is an independent reference decoder for the frames irai/packet puts on the
// wire. It is written from the RFCs (Ethernet II, RFC 826, 791, 8200, 768, 792, 4443, 4861,
// 2131/2132, 1035) and shares no code with package packet.
package refdec

import (
	"encoding/binary"
	"fmt"
	"net/netip"
)

type MAC [6]byte

func (m MAC) String() string {
	return fmt.Sprintf("%02x:%02x:%02x:%02x:%02x:%02x", m[0], m[1], m[2], m[3], m[4], m[5])
}

func (m MAC) IsBroadcast() bool { return m == MAC{0xff, 0xff, 0xff, 0xff, 0xff, 0xff} }
func (m MAC) IsMulticast() bool { return m[0]&1 == 1 }

type ARP struct {
	HType, PType uint16
	HLen, PLen   byte
	Op           uint16
	SHA          MAC
	SPA          netip.Addr
	THA          MAC
	TPA          netip.Addr
}

type IP4 struct {
	IHL        int
	TotalLen   int
	ID         uint16
	FlagsFrag  uint16
	TTL        byte
	Proto      byte
	Src, Dst   netip.Addr
	ChecksumOK bool
	Payload    []byte
}

type IP6 struct {
	PayloadLen int
	NextHeader byte
	HopLimit   byte
	Src, Dst   netip.Addr
	Payload    []byte
}

type UDP struct {
	SrcPort, DstPort uint16
	Length           int
	Payload          []byte
}

type ICMP struct {
	Type, Code byte
	ChecksumOK bool
	ID, Seq    uint16 // echo
	Body       []byte // after the 4-byte header
}

type NDOpt struct {
	Type byte
	Data []byte // without type/len
}

type PrefixInfo struct {
	Prefix             netip.Prefix
	OnLink, Autonomous bool
	Valid, Preferred   uint32
}

type ND struct {
	// RA
	CurHopLimit        byte
	Managed, Other     bool
	Prf                byte
	RouterLifetime     uint16
	Reachable, Retrans uint32
	// NS / NA
	Target                      netip.Addr
	Router, Solicited, Override bool
	Options                     []NDOpt
	SourceLLA, TargetLLA        *MAC
	Prefixes                    []PrefixInfo
	MTU                         uint32
	HasMTU                      bool
	RDNSSLifetime               uint32
	RDNSS                       []netip.Addr
	HasRDNSS                    bool
	DNSSLLifetime               uint32
	DNSSL                       []string
	HasDNSSL                    bool
	RoutePrefix                 netip.Prefix
	RoutePrf                    byte
	RouteLifetime               uint32
	HasRoute                    bool
}

type DHCPOpt struct {
	Code byte
	Data []byte
}

type DHCP struct {
	Op, HType, HLen, Hops byte
	XID                   [4]byte
	Secs, Flags           uint16
	CIAddr, YIAddr        netip.Addr
	SIAddr, GIAddr        netip.Addr
	CHAddr                MAC
	Options               []DHCPOpt // in wire order
	MsgType               byte
	EndSeen               bool
}

func (d *DHCP) Opt(code byte) ([]byte, bool) {
	for _, o := range d.Options {
		if o.Code == code {
			return o.Data, true
		}
	}
	return nil, false
}

func (d *DHCP) OptIndex(code byte) int {
	for i, o := range d.Options {
		if o.Code == code {
			return i
		}
	}
	return -1
}

func (d *DHCP) OptIP(code byte) (netip.Addr, bool) {
	v, ok := d.Opt(code)
	if !ok || len(v) < 4 {
		return netip.Addr{}, false
	}
	return netip.AddrFrom4([4]byte{v[0], v[1], v[2], v[3]}), true
}

type DNSHdr struct {
	ID             uint16
	Flags          uint16
	QD, AN, NS, AR uint16
	QName          string
	QType          uint16
}

type Frame struct {
	Len       int
	Dst, Src  MAC
	EtherType uint16
	ARP       *ARP
	IP4       *IP4
	IP6       *IP6
	UDP       *UDP
	ICMP4     *ICMP
	ICMP6     *ICMP
	ND        *ND
	DHCP      *DHCP
	DNS       *DNSHdr
	AppProto  string // dhcp, dns, mdns, llmnr, nbns, ssdp, ""
	Errs      []string
	Notes     []string // protocol deviations outside what the properties state (observations only)
}

func (f *Frame) errf(format string, a ...interface{}) {
	f.Errs = append(f.Errs, fmt.Sprintf(format, a...))
}

func sum(b []byte, acc uint32) uint32 {
	n := len(b)
	for i := 0; i+1 < n; i += 2 {
		acc += uint32(b[i])<<8 | uint32(b[i+1])
	}
	if n%2 == 1 {
		acc += uint32(b[n-1]) << 8
	}
	return acc
}

func folded(acc uint32) uint16 {
	for acc>>16 != 0 {
		acc = acc&0xffff + acc>>16
	}
	return uint16(acc)
}

func ip4of(b []byte) netip.Addr { return netip.AddrFrom4([4]byte{b[0], b[1], b[2], b[3]}) }
func ip6of(b []byte) netip.Addr { var a [16]byte; copy(a[:], b); return netip.AddrFrom16(a) }

// Decode decodes a whole Ethernet frame. Structural problems are collected in Errs.
func Decode(b []byte) *Frame {
	f := &Frame{Len: len(b)}
	if len(b) < 14 {
		f.errf("ethernet: frame of %d bytes is shorter than the 14-byte header", len(b))
		return f
	}
	copy(f.Dst[:], b[0:6])
	copy(f.Src[:], b[6:12])
	f.EtherType = binary.BigEndian.Uint16(b[12:14])
	p := b[14:]
	switch f.EtherType {
	case 0x0806:
		f.decodeARP(p)
	case 0x0800:
		f.decodeIP4(p)
	case 0x86dd:
		f.decodeIP6(p)
	default:
		f.errf("ethernet: unexpected ethertype %#04x", f.EtherType)
	}
	return f
}

func (f *Frame) decodeARP(p []byte) {
	if len(p) < 28 {
		f.errf("arp: %d bytes, need 28", len(p))
		return
	}
	a := &ARP{HType: binary.BigEndian.Uint16(p[0:2]), PType: binary.BigEndian.Uint16(p[2:4]), HLen: p[4], PLen: p[5], Op: binary.BigEndian.Uint16(p[6:8])}
	copy(a.SHA[:], p[8:14])
	a.SPA = ip4of(p[14:18])
	copy(a.THA[:], p[18:24])
	a.TPA = ip4of(p[24:28])
	f.ARP = a
	if a.HType != 1 {
		f.errf("arp: hardware type %d, want 1", a.HType)
	}
	if a.PType != 0x0800 {
		f.errf("arp: protocol type %#04x, want 0x0800", a.PType)
	}
	if a.HLen != 6 || a.PLen != 4 {
		f.errf("arp: hlen/plen %d/%d, want 6/4", a.HLen, a.PLen)
	}
	if a.Op != 1 && a.Op != 2 {
		f.errf("arp: operation %d", a.Op)
	}
	if len(p) > 28 {
		// trailing bytes are allowed only as zero padding up to the 60-byte minimum
		if f.Len > 60 {
			f.errf("arp: %d trailing bytes", len(p)-28)
		}
	}
}

func (f *Frame) decodeIP4(p []byte) {
	if len(p) < 20 {
		f.errf("ipv4: %d bytes, need 20", len(p))
		return
	}
	if p[0]>>4 != 4 {
		f.errf("ipv4: version %d", p[0]>>4)
		return
	}
	ip := &IP4{IHL: int(p[0]&0x0f) * 4, TotalLen: int(binary.BigEndian.Uint16(p[2:4])), ID: binary.BigEndian.Uint16(p[4:6]),
		FlagsFrag: binary.BigEndian.Uint16(p[6:8]), TTL: p[8], Proto: p[9], Src: ip4of(p[12:16]), Dst: ip4of(p[16:20])}
	f.IP4 = ip
	if ip.IHL < 20 || ip.IHL > len(p) {
		f.errf("ipv4: IHL %d bytes with %d available", ip.IHL, len(p))
		return
	}
	if ip.TotalLen < ip.IHL {
		f.errf("ipv4: total length %d < header length %d", ip.TotalLen, ip.IHL)
		return
	}
	if ip.TotalLen != len(p) {
		// padding to the ethernet minimum is legal, nothing else
		if ip.TotalLen > len(p) || f.Len > 60 {
			f.errf("ipv4: total length %d but %d bytes follow the ethernet header", ip.TotalLen, len(p))
			if ip.TotalLen > len(p) {
				return
			}
		}
	}
	ip.ChecksumOK = folded(sum(p[:ip.IHL], 0)) == 0xffff
	if !ip.ChecksumOK {
		f.errf("ipv4: header checksum does not verify")
	}
	if ip.TTL == 0 {
		f.errf("ipv4: ttl 0")
	}
	if ip.FlagsFrag&0x3fff != 0 { // MF set or a non-zero offset: not a complete datagram
		f.errf("ipv4: the datagram is a fragment (more-fragments=%v, offset=%d bytes)", ip.FlagsFrag&0x2000 != 0, int(ip.FlagsFrag&0x1fff)*8)
	}
	if ip.FlagsFrag&0x8000 != 0 {
		f.errf("ipv4: reserved flag bit set")
	}
	ip.Payload = p[ip.IHL:ip.TotalLen]
	switch ip.Proto {
	case 17:
		f.decodeUDP(ip.Payload, false)
	case 1:
		f.decodeICMP4(ip.Payload)
	}
}

func (f *Frame) decodeIP6(p []byte) {
	if len(p) < 40 {
		f.errf("ipv6: %d bytes, need 40", len(p))
		return
	}
	if p[0]>>4 != 6 {
		f.errf("ipv6: version %d", p[0]>>4)
		return
	}
	ip := &IP6{PayloadLen: int(binary.BigEndian.Uint16(p[4:6])), NextHeader: p[6], HopLimit: p[7], Src: ip6of(p[8:24]), Dst: ip6of(p[24:40])}
	f.IP6 = ip
	if ip.PayloadLen != len(p)-40 {
		f.errf("ipv6: payload length %d but %d bytes follow the header", ip.PayloadLen, len(p)-40)
		if ip.PayloadLen > len(p)-40 {
			return
		}
	}
	ip.Payload = p[40 : 40+ip.PayloadLen]
	if ip.Dst.IsMulticast() {
		d := ip.Dst.As16()
		want := MAC{0x33, 0x33, d[12], d[13], d[14], d[15]}
		if f.Dst != want {
			if f.Dst.IsMulticast() {
				f.errf("ipv6: multicast destination %s sent to the wrong multicast mac %s, want %s", ip.Dst, f.Dst, want)
			} else {
				f.errf("ipv6: multicast destination %s sent to the unicast mac %s, want %s", ip.Dst, f.Dst, want)
			}
		}
	}
	switch ip.NextHeader {
	case 17:
		f.decodeUDP(ip.Payload, true)
	case 58:
		f.decodeICMP6(ip.Payload)
	}
}

func (f *Frame) decodeUDP(p []byte, v6 bool) {
	if len(p) < 8 {
		f.errf("udp: %d bytes, need 8", len(p))
		return
	}
	u := &UDP{SrcPort: binary.BigEndian.Uint16(p[0:2]), DstPort: binary.BigEndian.Uint16(p[2:4]), Length: int(binary.BigEndian.Uint16(p[4:6]))}
	f.UDP = u
	if u.Length != len(p) {
		f.errf("udp: length field %d but the IP payload has %d bytes", u.Length, len(p))
		if u.Length < 8 || u.Length > len(p) {
			return
		}
	}
	u.Payload = p[8:u.Length]
	ck := binary.BigEndian.Uint16(p[6:8])
	if ck != 0 || v6 {
		var acc uint32
		if v6 {
			s, d := f.IP6.Src.As16(), f.IP6.Dst.As16()
			acc = sum(s[:], 0)
			acc = sum(d[:], acc)
		} else {
			s, d := f.IP4.Src.As4(), f.IP4.Dst.As4()
			acc = sum(s[:], 0)
			acc = sum(d[:], acc)
		}
		acc += 17 + uint32(u.Length)
		acc = sum(p[:u.Length], acc)
		if ck != 0 && folded(acc) != 0xffff {
			f.errf("udp: checksum does not verify")
		}
		if ck == 0 && v6 {
			f.Notes = append(f.Notes, "udp: zero checksum over IPv6 (RFC 8200 requires one)")
		}
	}
	switch {
	case u.DstPort == 67 || u.DstPort == 68:
		f.AppProto = "dhcp"
		f.decodeDHCP(u.Payload)
	case u.DstPort == 53 || u.SrcPort == 53:
		f.AppProto = "dns"
		f.decodeDNS(u.Payload)
	case u.DstPort == 5353:
		f.AppProto = "mdns"
		f.decodeDNS(u.Payload)
	case u.DstPort == 5355:
		f.AppProto = "llmnr"
		f.decodeDNS(u.Payload)
	case u.DstPort == 137:
		f.AppProto = "nbns"
		f.decodeDNS(u.Payload)
	case u.DstPort == 1900:
		f.AppProto = "ssdp"
	}
}

func (f *Frame) decodeICMP4(p []byte) {
	if len(p) < 8 {
		f.errf("icmp: %d bytes, need 8", len(p))
		return
	}
	ic := &ICMP{Type: p[0], Code: p[1], Body: p[4:]}
	ic.ChecksumOK = folded(sum(p, 0)) == 0xffff
	if !ic.ChecksumOK {
		f.errf("icmp: checksum does not verify")
	}
	if ic.Type == 8 || ic.Type == 0 {
		ic.ID = binary.BigEndian.Uint16(p[4:6])
		ic.Seq = binary.BigEndian.Uint16(p[6:8])
	}
	f.ICMP4 = ic
}

func (f *Frame) decodeICMP6(p []byte) {
	if len(p) < 4 {
		f.errf("icmp6: %d bytes, need 4", len(p))
		return
	}
	ic := &ICMP{Type: p[0], Code: p[1], Body: p[4:]}
	s, d := f.IP6.Src.As16(), f.IP6.Dst.As16()
	acc := sum(s[:], 0)
	acc = sum(d[:], acc)
	acc += uint32(len(p)) + 58
	acc = sum(p, acc)
	ic.ChecksumOK = folded(acc) == 0xffff
	if !ic.ChecksumOK {
		f.errf("icmp6: checksum (with pseudo header) does not verify")
	}
	f.ICMP6 = ic
	body := ic.Body
	switch ic.Type {
	case 128, 129:
		if len(body) < 4 {
			f.errf("icmp6 echo: body %d bytes, need 4", len(body))
			return
		}
		ic.ID = binary.BigEndian.Uint16(body[0:2])
		ic.Seq = binary.BigEndian.Uint16(body[2:4])
	case 133: // RS
		if len(body) < 4 {
			f.errf("nd rs: body %d bytes, need 4", len(body))
			return
		}
		f.ND = &ND{}
		f.ndOptions(body[4:])
	case 134: // RA
		if len(body) < 12 {
			f.errf("nd ra: body %d bytes, need 12", len(body))
			return
		}
		nd := &ND{CurHopLimit: body[0], Managed: body[1]&0x80 != 0, Other: body[1]&0x40 != 0, Prf: (body[1] >> 3) & 3,
			RouterLifetime: binary.BigEndian.Uint16(body[2:4]), Reachable: binary.BigEndian.Uint32(body[4:8]), Retrans: binary.BigEndian.Uint32(body[8:12])}
		f.ND = nd
		f.ndOptions(body[12:])
	case 135: // NS
		if len(body) < 20 {
			f.errf("nd ns: body %d bytes, need 20", len(body))
			return
		}
		f.ND = &ND{Target: ip6of(body[4:20])}
		f.ndOptions(body[20:])
	case 136: // NA
		if len(body) < 20 {
			f.errf("nd na: body %d bytes, need 20", len(body))
			return
		}
		f.ND = &ND{Router: body[0]&0x80 != 0, Solicited: body[0]&0x40 != 0, Override: body[0]&0x20 != 0, Target: ip6of(body[4:20])}
		f.ndOptions(body[20:])
	}
	if ic.Type >= 133 && ic.Type <= 137 {
		if f.IP6.HopLimit != 255 && (f.IP6.Dst.IsLinkLocalUnicast() || f.IP6.Dst.IsLinkLocalMulticast()) {
			f.errf("nd: hop limit %d to link-local destination %s, RFC 4861 requires 255", f.IP6.HopLimit, f.IP6.Dst)
		}
		if ic.Code != 0 {
			f.errf("nd: code %d", ic.Code)
		}
	}
}

func (f *Frame) ndOptions(p []byte) {
	nd := f.ND
	for len(p) > 0 {
		if len(p) < 2 {
			f.errf("nd option: %d trailing byte(s)", len(p))
			return
		}
		l := int(p[1]) * 8
		if l == 0 {
			f.errf("nd option %d: zero length", p[0])
			return
		}
		if l > len(p) {
			f.errf("nd option %d: length %d exceeds the %d remaining bytes", p[0], l, len(p))
			return
		}
		o := NDOpt{Type: p[0], Data: p[2:l]}
		nd.Options = append(nd.Options, o)
		switch o.Type {
		case 1, 2:
			if l != 8 {
				f.errf("nd option %d: link-layer address option of %d bytes", o.Type, l)
				break
			}
			var m MAC
			copy(m[:], o.Data[:6])
			if o.Type == 1 {
				nd.SourceLLA = &m
			} else {
				nd.TargetLLA = &m
			}
		case 3:
			if l != 32 {
				f.errf("nd prefix option: %d bytes, want 32", l)
				break
			}
			d := o.Data
			bits := int(d[0])
			if bits > 128 {
				f.errf("nd prefix option: prefix length %d", bits)
				break
			}
			pi := PrefixInfo{OnLink: d[1]&0x80 != 0, Autonomous: d[1]&0x40 != 0, Valid: binary.BigEndian.Uint32(d[2:6]), Preferred: binary.BigEndian.Uint32(d[6:10])}
			pi.Prefix = netip.PrefixFrom(ip6of(d[14:30]), bits)
			nd.Prefixes = append(nd.Prefixes, pi)
		case 5:
			if l != 8 {
				f.errf("nd mtu option: %d bytes, want 8", l)
				break
			}
			nd.MTU = binary.BigEndian.Uint32(o.Data[2:6])
			nd.HasMTU = true
		case 24:
			if l != 8 && l != 16 && l != 24 {
				f.errf("nd route information option: %d bytes", l)
				break
			}
			d := o.Data
			var a [16]byte
			copy(a[:], d[6:])
			nd.HasRoute = true
			nd.RoutePrefix = netip.PrefixFrom(netip.AddrFrom16(a), int(d[0]))
			nd.RoutePrf = (d[1] >> 3) & 3
			nd.RouteLifetime = binary.BigEndian.Uint32(d[2:6])
		case 31:
			if l < 16 {
				f.errf("nd dnssl option: %d bytes", l)
				break
			}
			nd.HasDNSSL = true
			nd.DNSSLLifetime = binary.BigEndian.Uint32(o.Data[2:6])
			d := o.Data[6:]
			name := ""
			for i := 0; i < len(d); {
				n := int(d[i])
				if n == 0 {
					if name != "" {
						nd.DNSSL = append(nd.DNSSL, name)
						name = ""
					}
					i++
					continue
				}
				if i+1+n > len(d) {
					f.errf("nd dnssl option: label runs past the option")
					break
				}
				if name != "" {
					name += "."
				}
				name += string(d[i+1 : i+1+n])
				i += 1 + n
			}
		case 25:
			if l < 24 || (l-8)%16 != 0 {
				f.errf("nd rdnss option: %d bytes", l)
				break
			}
			nd.HasRDNSS = true
			nd.RDNSSLifetime = binary.BigEndian.Uint32(o.Data[2:6])
			for i := 6; i+16 <= len(o.Data); i += 16 {
				nd.RDNSS = append(nd.RDNSS, ip6of(o.Data[i:i+16]))
			}
		}
		p = p[l:]
	}
}

func (f *Frame) decodeDHCP(p []byte) {
	if len(p) < 240 {
		f.errf("dhcp: %d bytes, need at least 240", len(p))
		return
	}
	d := &DHCP{Op: p[0], HType: p[1], HLen: p[2], Hops: p[3], Secs: binary.BigEndian.Uint16(p[8:10]), Flags: binary.BigEndian.Uint16(p[10:12]),
		CIAddr: ip4of(p[12:16]), YIAddr: ip4of(p[16:20]), SIAddr: ip4of(p[20:24]), GIAddr: ip4of(p[24:28])}
	copy(d.XID[:], p[4:8])
	copy(d.CHAddr[:], p[28:34])
	f.DHCP = d
	if d.Op != 1 && d.Op != 2 {
		f.errf("dhcp: op %d", d.Op)
	}
	if d.HType != 1 || d.HLen != 6 {
		f.errf("dhcp: htype/hlen %d/%d, want 1/6", d.HType, d.HLen)
	}
	if p[236] != 99 || p[237] != 130 || p[238] != 83 || p[239] != 99 {
		f.errf("dhcp: bad magic cookie")
		return
	}
	o := p[240:]
	for len(o) > 0 {
		c := o[0]
		if c == 0 {
			o = o[1:]
			continue
		}
		if c == 255 {
			d.EndSeen = true
			break
		}
		if len(o) < 2 || 2+int(o[1]) > len(o) {
			f.errf("dhcp: option %d runs past the end of the message", c)
			return
		}
		d.Options = append(d.Options, DHCPOpt{Code: c, Data: o[2 : 2+int(o[1])]})
		o = o[2+int(o[1]):]
	}
	if !d.EndSeen {
		f.errf("dhcp: no end option")
	}
	if t, ok := d.Opt(53); ok && len(t) == 1 {
		d.MsgType = t[0]
	} else {
		f.errf("dhcp: missing or malformed message type option")
	}
	seen := map[byte]bool{}
	for _, op := range d.Options {
		if seen[op.Code] {
			f.errf("dhcp: option %d appears twice", op.Code)
		}
		seen[op.Code] = true
	}
	if len(p) < 300 {
		f.errf("dhcp: message of %d bytes is below the 300-byte BOOTP minimum", len(p))
	}
}

func (f *Frame) decodeDNS(p []byte) {
	if len(p) < 12 {
		f.errf("dns: %d bytes, need 12", len(p))
		return
	}
	h := &DNSHdr{ID: binary.BigEndian.Uint16(p[0:2]), Flags: binary.BigEndian.Uint16(p[2:4]), QD: binary.BigEndian.Uint16(p[4:6]),
		AN: binary.BigEndian.Uint16(p[6:8]), NS: binary.BigEndian.Uint16(p[8:10]), AR: binary.BigEndian.Uint16(p[10:12])}
	f.DNS = h
	if h.QD > 0 {
		i := 12
		name := ""
		for {
			if i >= len(p) {
				f.errf("dns: question name runs past the end")
				return
			}
			l := int(p[i])
			if l == 0 {
				i++
				break
			}
			if l&0xc0 != 0 {
				f.errf("dns: compression pointer in the first question")
				return
			}
			if i+1+l > len(p) {
				f.errf("dns: label runs past the end")
				return
			}
			name += string(p[i+1:i+1+l]) + "."
			i += 1 + l
		}
		h.QName = name
		if i+4 > len(p) {
			f.errf("dns: question type/class missing")
			return
		}
		h.QType = binary.BigEndian.Uint16(p[i : i+2])
	}
}

// Describe renders a one-line summary for traces.
func (f *Frame) Describe() string {
	s := fmt.Sprintf("%s>%s", f.Src, f.Dst)
	switch {
	case f.ARP != nil:
		s += fmt.Sprintf(" arp op=%d sha=%s spa=%s tha=%s tpa=%s", f.ARP.Op, f.ARP.SHA, f.ARP.SPA, f.ARP.THA, f.ARP.TPA)
	case f.DHCP != nil:
		s += fmt.Sprintf(" dhcp type=%d xid=%x yiaddr=%s chaddr=%s", f.DHCP.MsgType, f.DHCP.XID, f.DHCP.YIAddr, f.DHCP.CHAddr)
	case f.ICMP4 != nil:
		s += fmt.Sprintf(" %s>%s icmp type=%d id=%d", f.IP4.Src, f.IP4.Dst, f.ICMP4.Type, f.ICMP4.ID)
	case f.ICMP6 != nil:
		s += fmt.Sprintf(" %s>%s icmp6 type=%d", f.IP6.Src, f.IP6.Dst, f.ICMP6.Type)
		if f.ND != nil && f.ND.Target.IsValid() {
			s += " target=" + f.ND.Target.String()
		}
	case f.UDP != nil:
		s += fmt.Sprintf(" udp %d>%d %s", f.UDP.SrcPort, f.UDP.DstPort, f.AppProto)
	case f.IP4 != nil:
		s += fmt.Sprintf(" %s>%s ip proto=%d", f.IP4.Src, f.IP4.Dst, f.IP4.Proto)
	case f.IP6 != nil:
		s += fmt.Sprintf(" %s>%s ip6 nh=%d", f.IP6.Src, f.IP6.Dst, f.IP6.NextHeader)
	default:
		s += fmt.Sprintf(" ethertype=%#04x", f.EtherType)
	}
	if len(f.Errs) > 0 {
		s += fmt.Sprintf(" ERR=%q", f.Errs)
	}
	return s
}
