package scen

import (
	"bytes"
	"fmt"
	"net"
	"net/netip"
	"strings"
	"time"

	"github.com/irai/packet"

	"verif/sim/fb"
	"verif/sim/refdec"
	"verif/sim/simrt"
	"verif/sim/world"
)

// ---- family "sends": C07, every exported send path with generated arguments ----

const (
	sARPRequest = iota
	sARPRequestTo
	sARPProbe
	sARPAnnounceTo
	sARPReply
	sARPRequestRaw
	sEcho4
	sEcho6
	sRS
	sRA
	sNA
	sNS
	sDHCPDiscover
	sMDNSQuery
	sLLMNRQuery
	sSleepProxy
	sNBNSQuery
	sNBNSNodeStatus
	sSSDPSearch
	sPing4
	sPing6
	sPurgeProbes
	sDHCPForceRelease
	numSendAPIs
)

var sendNames = []string{"arp.Request", "arp.RequestTo", "arp.Probe", "arp.AnnounceTo", "arp.Reply", "arp.RequestRaw",
	"ICMP4SendEchoRequest", "ICMP6SendEchoRequest", "ICMP6SendRouterSolicitation", "ICMP6SendRouterAdvertisement",
	"ICMP6SendNeighborAdvertisement", "ICMP6SendNeighbourSolicitation", "dhcp.SendDiscoverPacket", "SendMDNSQuery",
	"SendLLMNRQuery", "SendSleepProxyResponse", "SendNBNSQuery", "SendNBNSNodeStatus", "SendSSDPSearch", "Ping", "Ping6",
	"purge probes", "dhcp.StartHunt(force release)"}

func samePrefixes(got []refdec.PrefixInfo, want []packet.PrefixInformation) bool {
	if len(got) != len(want) {
		return false
	}
	for i := range want {
		a, ok := netip.AddrFromSlice(want[i].Prefix)
		if !ok || got[i].Prefix != netip.PrefixFrom(a.Unmap(), int(want[i].PrefixLength)) {
			return false
		}
	}
	return true
}

func genSends(prop string, seed uint64, tier string) Scenario {
	r := &rng{s: seed ^ 0x5e9d}
	sc := Scenario{Prop: prop, Family: "sends", Seed: seed}
	c := &sc.Cfg
	ds := deadlineSets[r.n(4)]
	c.ProbeMin, c.OfflineMin, c.PurgeMin = ds[0], ds[1], ds[2]
	hb := [][2]int{{24, 25}, {24, 28}, {26, 28}, {28, 30}}[r.n(4)]
	c.HomeBits, c.NFBits = hb[0], hb[1]
	c.HostLLA = !r.chance(1, 6)
	c.HostGUA = r.chance(1, 2)
	c.ARP, c.ICMP6, c.DHCP, c.DNS = true, true, true, true
	c.DHCPMode = 1 + r.n(3)
	c.Debug = r.chance(1, 4)
	c.PreemptN = r.pick(0, 1, 4, 16)
	c.HintMax = r.pick(0, 0, 50)
	n := 4 + r.n(30)
	for i := 0; i < n; i++ {
		sc.Ops = append(sc.Ops, Op{K: "send", P: r.n(numSendAPIs), M: r.n(5), I: r.n(12), T: r.n(12), N: r.n(6), X: r.n(65536), S: r.n(4)})
	}
	return sc
}

type sendCheck struct {
	e    *exec
	api  string
	outs []world.Out
}

func (s *sendCheck) bad(key, format string, a ...interface{}) {
	var fr []string
	for _, o := range s.outs {
		fr = append(fr, o.F.Describe())
	}
	s.e.violate("C07.intent", s.api+":"+key, fmt.Sprintf("%s: ", s.api)+fmt.Sprintf(format, a...)+fmt.Sprintf(" | frames written: %v", fr))
}

func runSends(e *exec) {
	w := e.w
	u := w.U
	own := refdec.MAC(u.MACs[world.MOwn])
	ownHW := world.HW(u.MACs[world.MOwn])
	w.StartLoop()
	simrt.Settle()
	w.PollOut()
	mac := func(i int) fb.MAC { return u.MACs[world.MC1+i%5] }
	ip4 := func(i int) netip.Addr { return u.IP4[i%len(u.IP4)] }
	home4 := func(i int) netip.Addr {
		return u.IP4[world.FirstClientIP4+i%(len(u.IP4)-world.FirstClientIP4)]
	}
	ip6 := func(m, i int) netip.Addr { return u.IP6(world.MC1+m%5, i%4) }
	srcLLA := packet.Addr{MAC: ownHW, IP: u.HostLLA}
	bcast := refdec.MAC(fb.Broadcast)

	for i, o := range e.sc.Ops {
		e.step = i
		e.res.OpsRun++
		api := o.P % numSendAPIs
		e.res.OpKinds[sendNames[api]]++
		chk := &sendCheck{e: e, api: sendNames[api]}
		var err error
		var expect func(outs []world.Out)
		one := func(outs []world.Out, f func(f *refdec.Frame)) {
			if len(outs) != 1 {
				chk.bad("frame-count", "expected exactly one frame, got %d", len(outs))
				return
			}
			f(outs[0].F)
		}
		arpIs := func(f *refdec.Frame, dst refdec.MAC, op uint16, sha refdec.MAC, spa netip.Addr, tha *refdec.MAC, tpa netip.Addr) {
			a := f.ARP
			if a == nil {
				chk.bad("not-arp", "frame is not ARP")
				return
			}
			if f.Dst != dst {
				chk.bad("ether-dst", "ethernet destination %s, want %s", f.Dst, dst)
			}
			if a.Op != op || a.SHA != sha || a.SPA != spa || a.TPA != tpa {
				chk.bad("arp-fields", "arp op=%d sha=%s spa=%s tpa=%s, want op=%d sha=%s spa=%s tpa=%s", a.Op, a.SHA, a.SPA, a.TPA, op, sha, spa, tpa)
			}
			if tha != nil && a.THA != *tha {
				chk.bad("arp-tha", "arp target hardware address %s, want %s", a.THA, *tha)
			}
		}
		switch api {
		case sARPRequest:
			t := ip4(o.I)
			err = w.ARP.Request(t)
			expect = func(outs []world.Out) {
				one(outs, func(f *refdec.Frame) { arpIs(f, bcast, 1, own, u.HostIP, nil, t) })
			}
		case sARPRequestTo:
			t, d := ip4(o.I), mac(o.M)
			err = w.ARP.RequestTo(world.HW(d), t)
			expect = func(outs []world.Out) {
				one(outs, func(f *refdec.Frame) { arpIs(f, refdec.MAC(d), 1, own, u.HostIP, nil, t) })
			}
		case sARPProbe:
			t := ip4(o.I)
			err = w.ARP.Probe(t)
			expect = func(outs []world.Out) {
				zero := refdec.MAC{}
				one(outs, func(f *refdec.Frame) {
					arpIs(f, bcast, 1, own, netip.MustParseAddr("0.0.0.0"), &zero, t)
				})
			}
		case sARPAnnounceTo:
			t, d := ip4(o.I), mac(o.M)
			err = w.ARP.AnnounceTo(world.HW(d), t)
			expect = func(outs []world.Out) {
				one(outs, func(f *refdec.Frame) { arpIs(f, refdec.MAC(d), 1, own, t, nil, t) })
			}
		case sARPReply, sARPRequestRaw:
			d := mac(o.M)
			snd := packet.Addr{MAC: world.HW(mac(o.N)), IP: ip4(o.I)}
			tgt := packet.Addr{MAC: world.HW(mac(o.S)), IP: ip4(o.T)}
			op := uint16(2)
			if api == sARPReply {
				err = w.ARP.Reply(world.HW(d), snd, tgt)
			} else {
				op = 1
				err = w.ARP.RequestRaw(world.HW(d), snd, tgt)
			}
			expect = func(outs []world.Out) {
				tha := refdec.MAC(mac(o.S))
				one(outs, func(f *refdec.Frame) { arpIs(f, refdec.MAC(d), op, refdec.MAC(mac(o.N)), snd.IP, &tha, tgt.IP) })
			}
		case sEcho4:
			src := packet.Addr{MAC: ownHW, IP: u.HostIP}
			dst := packet.Addr{MAC: world.HW(mac(o.M)), IP: ip4(o.I)}
			id, seq := uint16(o.X), uint16(o.N)
			err = w.S.ICMP4SendEchoRequest(src, dst, id, seq)
			expect = func(outs []world.Out) {
				one(outs, func(f *refdec.Frame) {
					if f.ICMP4 == nil || f.ICMP4.Type != 8 || f.ICMP4.ID != id || f.ICMP4.Seq != seq || f.IP4.Src != src.IP || f.IP4.Dst != dst.IP || f.Dst != refdec.MAC(mac(o.M)) {
						chk.bad("echo4-fields", "want echo request id=%d seq=%d %s>%s to %x", id, seq, src.IP, dst.IP, mac(o.M))
					}
				})
			}
		case sEcho6:
			if !w.Cfg.HostLLA {
				continue
			}
			dst := packet.Addr{MAC: world.HW(mac(o.M)), IP: ip6(o.M, o.I)}
			id, seq := uint16(o.X), uint16(o.N)
			err = w.S.ICMP6SendEchoRequest(srcLLA, dst, id, seq)
			expect = func(outs []world.Out) {
				one(outs, func(f *refdec.Frame) {
					if f.ICMP6 == nil || f.ICMP6.Type != 128 || f.ICMP6.ID != id || f.ICMP6.Seq != seq || f.IP6.Src != u.HostLLA || f.IP6.Dst != dst.IP || f.Dst != refdec.MAC(mac(o.M)) {
						chk.bad("echo6-fields", "want echo request id=%d seq=%d %s>%s to %x", id, seq, u.HostLLA, dst.IP, mac(o.M))
					}
					if dst.IP.IsLinkLocalUnicast() && f.IP6 != nil && f.IP6.HopLimit != 255 {
						chk.bad("hop-limit", "hop limit %d to a link-local destination", f.IP6.HopLimit)
					}
				})
			}
		case sRS:
			if !w.Cfg.HostLLA {
				continue
			}
			err = w.S.ICMP6SendRouterSolicitation()
			expect = func(outs []world.Out) {
				one(outs, func(f *refdec.Frame) {
					allRouters := netip.MustParseAddr("ff02::2")
					switch {
					case f.ICMP6 == nil || f.ICMP6.Type != 133:
						chk.bad("not-rs", "frame is not a router solicitation (icmp6 type %v)", icmpType(f))
					case f.IP6.Dst != allRouters:
						chk.bad("rs-destination", "router solicitation sent to %s, want the all-routers address %s", f.IP6.Dst, allRouters)
					case f.IP6.Src != u.HostLLA:
						chk.bad("rs-source", "router solicitation from %s, want %s", f.IP6.Src, u.HostLLA)
					case f.ND.SourceLLA == nil || *f.ND.SourceLLA != own:
						chk.bad("rs-slla", "router solicitation source link-layer option %v, want %s", f.ND.SourceLLA, own)
					}
				})
			}
		case sRA:
			if !w.Cfg.HostLLA {
				continue
			}
			pfx := []packet.PrefixInformation{{PrefixLength: 64, Prefix: net.ParseIP("2001:db8:5::")}}
			if o.N%2 == 1 {
				pfx = append(pfx, packet.PrefixInformation{PrefixLength: 56, Prefix: net.ParseIP("fd00:2::")})
			}
			if o.N%3 == 2 {
				pfx = append(pfx, packet.PrefixInformation{PrefixLength: 48, Prefix: net.ParseIP("2001:db8:77::")})
			}
			var rdnss *packet.RecursiveDNSServer
			if o.S%2 == 1 {
				rdnss = &packet.RecursiveDNSServer{Lifetime: 10 * time.Minute, Servers: []net.IP{net.ParseIP("2001:db8::53")}}
			}
			func() {
				defer func() {
					if r := recover(); r != nil {
						chk.bad("panic", "panicked: %v", r)
					}
				}()
				err = w.S.ICMP6SendRouterAdvertisement(pfx, rdnss, packet.IP6AllNodesAddr)
			}()
			expect = func(outs []world.Out) {
				one(outs, func(f *refdec.Frame) {
					switch {
					case f.ICMP6 == nil || f.ICMP6.Type != 134:
						chk.bad("not-ra", "frame is not a router advertisement (icmp6 type %v)", icmpType(f))
					case len(f.ND.Prefixes) != len(pfx):
						chk.bad("ra-prefixes", "%d prefix options, want %d", len(f.ND.Prefixes), len(pfx))
					case !samePrefixes(f.ND.Prefixes, pfx):
						chk.bad("ra-prefix-values", "prefix options %v, want %v", f.ND.Prefixes, pfx)
					case (rdnss != nil) != f.ND.HasRDNSS:
						chk.bad("ra-rdnss", "rdnss option present=%v, want %v", f.ND.HasRDNSS, rdnss != nil)
					}
				})
			}
		case sNA:
			if !w.Cfg.HostLLA {
				continue
			}
			dst := packet.Addr{MAC: world.HW(mac(o.M)), IP: ip6(o.M, o.I%2)}
			tgt := packet.Addr{MAC: world.HW(mac(o.N)), IP: ip6(o.N, o.T)}
			err = w.S.ICMP6SendNeighborAdvertisement(srcLLA, dst, tgt)
			expect = func(outs []world.Out) {
				one(outs, func(f *refdec.Frame) {
					tm := refdec.MAC(mac(o.N))
					switch {
					case f.ICMP6 == nil || f.ICMP6.Type != 136:
						chk.bad("not-na", "frame is not a neighbour advertisement")
					case f.ND.Target != tgt.IP || f.ND.TargetLLA == nil || *f.ND.TargetLLA != tm || !f.ND.Override:
						chk.bad("na-fields", "target=%s tlla=%v override=%v, want target=%s tlla=%s override=true", f.ND.Target, f.ND.TargetLLA, f.ND.Override, tgt.IP, tm)
					case f.IP6.Src != u.HostLLA || f.IP6.Dst != dst.IP || f.Dst != refdec.MAC(mac(o.M)):
						chk.bad("na-addresses", "%s>%s to %s, want %s>%s to %x", f.IP6.Src, f.IP6.Dst, f.Dst, u.HostLLA, dst.IP, mac(o.M))
					}
				})
			}
		case sNS:
			if !w.Cfg.HostLLA {
				continue
			}
			t := ip6(o.N, o.T)
			sn := fb.SolicitedNode(t)
			dst := packet.Addr{MAC: world.HW(fb.MulticastMAC6(sn)), IP: sn}
			if o.S%2 == 1 {
				dst = packet.Addr{MAC: world.HW(mac(o.N)), IP: t}
			}
			src := srcLLA
			switch o.I % 4 { // the caller chooses the source: link-local, global, or unspecified (a DAD probe)
			case 2:
				src = packet.Addr{MAC: ownHW, IP: netip.MustParseAddr("2001:db8::1:1")}
			case 3:
				src = packet.Addr{MAC: ownHW, IP: netip.IPv6Unspecified()}
			}
			err = w.S.ICMP6SendNeighbourSolicitation(src, dst, t)
			expect = func(outs []world.Out) {
				one(outs, func(f *refdec.Frame) {
					switch {
					case f.ICMP6 == nil || f.ICMP6.Type != 135:
						chk.bad("not-ns", "frame is not a neighbour solicitation")
					case f.ND.Target != t:
						chk.bad("ns-target", "target %s, want %s", f.ND.Target, t)
					case f.ND.TargetLLA != nil:
						chk.bad("ns-carries-target-lla-option", "neighbour solicitation carries a target link-layer address option (type 2); RFC 4861 section 4.3 allows only the source link-layer address option (type 1)")
					case !src.IP.IsUnspecified() && (f.ND.SourceLLA == nil || *f.ND.SourceLLA != own):
						chk.bad("ns-slla", "source link-layer option %v, want %s", f.ND.SourceLLA, own)
					case f.IP6.Src != src.IP:
						chk.bad("ns-source", "sent from %s, want the caller's source %s", f.IP6.Src, src.IP)
						// (the hop limit of link-local NDP is checked by the reference decoder on every frame; an NS
						// to a global address goes out with 64, which RFC 4861 also forbids but the statement
						// does not cover: an observation, not a violation)
					}
				})
			}
		case sDHCPDiscover:
			ch := mac(o.M)
			xid := []byte{byte(o.X >> 8), byte(o.X), 7, byte(o.N)}
			name := hostnames[o.N%len(hostnames)]
			err = w.DHCP.SendDiscoverPacket(world.HW(ch), netip.MustParseAddr("0.0.0.0"), xid, name)
			expect = func(outs []world.Out) {
				one(outs, func(f *refdec.Frame) {
					d := f.DHCP
					switch {
					case d == nil || d.Op != 1 || d.MsgType != 1:
						chk.bad("not-discover", "frame is not a DHCP DISCOVER")
					case d.CHAddr != refdec.MAC(ch) || !bytes.Equal(d.XID[:], xid):
						chk.bad("discover-fields", "chaddr=%s xid=%x, want %x %x", d.CHAddr, d.XID, ch, xid)
					case f.UDP.SrcPort != 68 || f.UDP.DstPort != 67:
						chk.bad("discover-ports", "ports %d>%d", f.UDP.SrcPort, f.UDP.DstPort)
					}
					if hn, ok := d.Opt(12); name != "" && (!ok || string(hn) != name) {
						chk.bad("discover-hostname", "host name option %q, want %q", hn, name)
					}
				})
			}
		case sMDNSQuery, sLLMNRQuery:
			name := []string{"printer.local.", "_airplay._tcp.local.", "host1.local."}[o.N%3]
			port := uint16(5353)
			if api == sMDNSQuery {
				err = w.DNS.SendMDNSQuery(name)
			} else {
				err = w.DNS.SendLLMNRQuery(name)
				port = 5355
			}
			expect = func(outs []world.Out) {
				one(outs, func(f *refdec.Frame) {
					switch {
					case f.UDP == nil || f.UDP.DstPort != port || f.DNS == nil:
						chk.bad("not-a-query", "frame is not a DNS query to port %d", port)
					case f.DNS.QD != 1 || !strings.EqualFold(f.DNS.QName, name):
						chk.bad("query-name", "question %q (qd=%d), want %q", f.DNS.QName, f.DNS.QD, name)
					case f.IP4 == nil || f.IP4.Src != u.HostIP || !f.IP4.Dst.IsMulticast():
						chk.bad("query-addresses", "addresses %v", f.IP4)
					}
				})
			}
		case sSleepProxy:
			v6 := o.S%2 == 1 && w.Cfg.HostLLA
			src := packet.Addr{MAC: ownHW, IP: u.HostIP}
			dst := packet.Addr{MAC: world.HW(mac(o.M)), IP: home4(o.I), Port: 5353}
			if v6 {
				src = srcLLA
				mc := netip.MustParseAddr("ff02::fb")
				dst = packet.Addr{MAC: world.HW(fb.MulticastMAC6(mc)), IP: mc, Port: 5353}
			}
			id := uint16(o.X)
			err = w.DNS.SendSleepProxyResponse(src, dst, id, "x")
			expect = func(outs []world.Out) {
				one(outs, func(f *refdec.Frame) {
					if f.DNS == nil || f.DNS.ID != id || f.DNS.Flags&0x8000 == 0 || f.DNS.AN != 4 || f.UDP.DstPort != 5353 {
						chk.bad("sleep-proxy-fields", "want an mDNS response id=%d with 4 answers", id)
					}
				})
			}
		case sNBNSQuery:
			src := packet.Addr{MAC: ownHW, IP: u.HostIP}
			if o.S%4 == 3 {
				src.MAC = world.HW(mac(o.N)) // the caller passes some other MAC: the wire must still show ours
			}
			dst := packet.Addr{MAC: world.HW(mac(o.M)), IP: home4(o.I)}
			err = w.DNS.SendNBNSQuery(src, dst, "WORKGROUP")
			expect = func(outs []world.Out) {
				one(outs, func(f *refdec.Frame) {
					if f.UDP == nil || f.UDP.DstPort != 137 || f.DNS == nil || f.DNS.QD != 1 || f.IP4.Dst != dst.IP {
						chk.bad("nbns-fields", "want one NBNS question to %s:137", dst.IP)
					}
				})
			}
		case sNBNSNodeStatus:
			err = w.DNS.SendNBNSNodeStatus()
			expect = func(outs []world.Out) {
				one(outs, func(f *refdec.Frame) {
					if f.UDP == nil || f.UDP.DstPort != 137 || f.DNS == nil || f.DNS.QD != 1 || f.DNS.QType != 0x21 {
						chk.bad("nbns-status-fields", "want one NBNS node status question")
					}
				})
			}
		case sSSDPSearch:
			err = w.DNS.SendSSDPSearch()
			expect = func(outs []world.Out) {
				one(outs, func(f *refdec.Frame) {
					if f.UDP == nil || f.UDP.DstPort != 1900 || !bytes.Contains(f.UDP.Payload, []byte("M-SEARCH * HTTP/1.1")) || f.IP4.Dst != netip.MustParseAddr("239.255.255.250") {
						chk.bad("ssdp-fields", "want an M-SEARCH to 239.255.255.250:1900")
					}
				})
			}
		case sPing4, sPing6:
			// nobody answers: the call times out in virtual time; the request must be right
			dst := packet.Addr{MAC: world.HW(mac(o.M)), IP: home4(o.I)}
			if api == sPing6 {
				if !w.Cfg.HostLLA {
					continue
				}
				dst.IP = ip6(o.M, o.I)
				err = w.S.Ping6(srcLLA, dst, 100*time.Millisecond)
			} else {
				err = w.S.Ping(dst, 100*time.Millisecond)
			}
			if err == packet.ErrTimeout {
				err = nil
			}
			expect = func(outs []world.Out) {
				one(outs, func(f *refdec.Frame) {
					ok := f.ICMP4 != nil && f.ICMP4.Type == 8 && f.IP4.Dst == dst.IP && f.IP4.Src == u.HostIP
					if api == sPing6 {
						ok = f.ICMP6 != nil && f.ICMP6.Type == 128 && f.IP6.Dst == dst.IP && f.IP6.Src == u.HostLLA
					}
					if !ok || f.Dst != refdec.MAC(mac(o.M)) {
						chk.bad("ping-request", "want an echo request to %s", dst.IP)
					}
				})
			}
		case sPurgeProbes:
			// hosts appear, fall silent, and the real purge probes them: ARP, NS, echo
			c1, c2, c3 := mac(o.M), mac(o.M+1), mac(o.M+2)
			a4 := home4(o.I)
			lla, gua := ip6(o.M+1, 0), ip6(o.M+2, 2)
			w.Inject(fb.Eth(u.MACs[world.MRouter], c1, 0x0800, fb.IPv4(a4, u.RouterIP, 17, 64, 1, fb.UDP(1000, 2000, []byte("x")))))
			mc := netip.MustParseAddr("ff02::1")
			w.Inject(fb.Eth(fb.MulticastMAC6(mc), c2, 0x86dd, fb.IPv6(lla, mc, 58, 64, fb.Echo6(lla, mc, 128, 1, 1, nil))))
			w.Inject(fb.Eth(fb.MulticastMAC6(mc), c3, 0x86dd, fb.IPv6(gua, mc, 58, 64, fb.Echo6(gua, mc, 128, 1, 1, nil))))
			simrt.Settle()
			w.PollOut()
			w.Advance(time.Duration(w.Cfg.ProbeMin)*time.Minute+time.Minute, nil)
			expect = func(outs []world.Out) {
				sawARP, sawNS, sawEcho := false, false, false
				for _, o := range outs {
					f := o.F
					if f.ARP != nil && f.ARP.TPA == a4 && f.ARP.SPA == u.HostIP && f.ARP.SHA == own && f.ARP.Op == 1 {
						sawARP = true
					}
					if f.ICMP6 != nil && f.ICMP6.Type == 135 && f.ND.Target == lla {
						sawNS = true
					}
					if f.ICMP6 != nil && f.ICMP6.Type == 128 && f.IP6.Dst == gua {
						sawEcho = true
					}
				}
				// whether every silent host gets a probe is not part of C07 (it constrains the frames
				// that are sent); record it as an observation only
				if !sawARP {
					e.probe("observation_silent_ipv4_host_not_probed")
				}
				if w.Cfg.HostLLA && !sawNS && !sawEcho {
					e.probe("observation_silent_ipv6_hosts_not_probed")
				}
				e.probe("purge_probes_seen")
			}
		case sDHCPForceRelease:
			// a full DORA, then StartHunt makes the server fake a RELEASE towards the real router
			c := mac(o.M)
			zero := netip.MustParseAddr("0.0.0.0")
			disc := fb.DHCP{Op: 1, XID: [4]byte{9, 9, byte(i), 1}, CHAddr: c, Options: []fb.DHCPOpt{{Code: 53, Data: []byte{1}}}}
			w.Inject(fb.Eth(fb.Broadcast, c, 0x0800, fb.IPv4(zero, netip.MustParseAddr("255.255.255.255"), 17, 64, 1, fb.UDP(68, 67, disc.Bytes()))))
			simrt.Settle()
			var offer netip.Addr
			for _, o := range w.PollOut() {
				if o.F.DHCP != nil && o.F.DHCP.Op == 2 && o.F.DHCP.MsgType == 2 && o.F.DHCP.CHAddr == refdec.MAC(c) {
					offer = o.F.DHCP.YIAddr
				}
			}
			if !offer.IsValid() {
				continue
			}
			x := offer.As4()
			h4 := u.HostIP.As4()
			req := fb.DHCP{Op: 1, XID: disc.XID, CHAddr: c, Options: []fb.DHCPOpt{{Code: 53, Data: []byte{3}}, {Code: 50, Data: x[:]}, {Code: 54, Data: h4[:]}}}
			w.Inject(fb.Eth(fb.Broadcast, c, 0x0800, fb.IPv4(zero, netip.MustParseAddr("255.255.255.255"), 17, 64, 1, fb.UDP(68, 67, req.Bytes()))))
			simrt.Settle()
			w.PollOut()
			err = w.DHCP.StartHunt(packet.Addr{MAC: world.HW(c), IP: offer})
			expect = func(outs []world.Out) {
				if w.Cfg.DHCPMode == 1 {
					return
				}
				one(outs, func(f *refdec.Frame) {
					d := f.DHCP
					if d == nil || d.Op != 1 || d.MsgType != 7 || d.CHAddr != refdec.MAC(c) || d.CIAddr != offer || f.IP4.Dst != u.RouterIP || f.Dst != refdec.MAC(u.MACs[world.MRouter]) {
						chk.bad("release-fields", "want a DHCP RELEASE of %s for %x sent to the router", offer, c)
					}
				})
			}
		}
		simrt.Settle()
		w.Drain()
		outs := w.PollOut()
		chk.outs = outs
		e.res.FramesOut += len(outs)
		if err != nil {
			e.probe("send_returned_error")
			if len(outs) > 0 {
				chk.bad("error-but-frame", "returned %v but wrote %d frame(s)", err, len(outs))
			}
			continue
		}
		if expect != nil {
			expect(outs)
		}
		e.probe("send_checked")
		if e.fatal {
			break
		}
	}
}

func icmpType(f *refdec.Frame) interface{} {
	if f.ICMP6 != nil {
		return f.ICMP6.Type
	}
	return "none"
}
