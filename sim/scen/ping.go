package scen

import (
	"fmt"
	"net/netip"
	"time"

	"github.com/irai/packet"

	"verif/sim/fb"
	"verif/sim/simrt"
	"verif/sim/world"
)

// ---- family "ping": C19 ----

var pingTimeouts = []time.Duration{-1, time.Millisecond, 100 * time.Millisecond, 2 * time.Second, 10 * time.Second, 11 * time.Second, 700 * time.Millisecond}

// responder behaviours (Op.P of a ping op)
const (
	rbReply = iota
	rbDrop
	rbDuplicate
	rbForeignID
	rbEchoRequest
	rbTruncated
	rbTooLate
	rbAtDeadline
	numRB
)

func genPing(prop string, seed uint64, tier string) Scenario {
	r := &rng{s: seed ^ 0x9199}
	sc := Scenario{Prop: prop, Family: "ping", Seed: seed}
	c := &sc.Cfg
	c.ProbeMin, c.OfflineMin, c.PurgeMin = 2, 5, 61
	c.HomeBits, c.NFBits = 24, 25
	c.HostLLA = true
	c.HostGUA = r.chance(1, 2)
	c.Concurrent = true
	c.ReuseBuf = r.chance(1, 2)
	c.PreemptN = r.pick(1, 1, 4, 16)
	c.HintMax = r.pick(0, 10, 100)
	if r.chance(1, 3) {
		c.StallDen = r.pick(64, 256)
	}
	npingers := 1 + r.n(6)
	nops := 2 + r.n(14)
	if r.chance(1, 3) {
		nops = 1 + r.n(4)
	}
	for i := 0; i < nops; i++ {
		sc.Ops = append(sc.Ops, Op{K: "ping", T: r.n(npingers), M: r.n(3), I: r.n(2), X: r.n(len(pingTimeouts)),
			P: r.weighted([]int{8, 3, 4, 3, 2, 2, 2, 2}), N: r.n(6), D: r.weighted([]int{6, 2, 3, 2, 2, 1}), S: r.n(5)})
		if r.chance(1, 5) {
			sc.Ops = append(sc.Ops, Op{K: "unsolicited", T: 100, I: r.n(2), N: r.n(40), D: r.n(5), P: r.n(2)})
		}
		if r.chance(1, 14) {
			// the next write(s) to the wire fail: a ping whose echo request cannot be sent returns that error
			sc.Ops = append(sc.Ops, Op{K: "wfault", T: 101, N: 1 + r.n(2), D: r.n(5)})
		}
	}
	return sc
}

var replyLatency = []time.Duration{0, time.Millisecond, 20 * time.Millisecond, 90 * time.Millisecond, 600 * time.Millisecond, 1900 * time.Millisecond}

func effTimeout(code int) time.Duration {
	t := pingTimeouts[code%len(pingTimeouts)]
	if t <= 0 || t > 10*time.Second {
		return 2 * time.Second
	}
	return t
}

// pingTarget is the unique destination of ping op idx, so that the wire monitor can map an
// echo request to the op that sent it.
func pingTarget(idx int, v6 bool) netip.Addr {
	if v6 {
		return netip.MustParseAddr(fmt.Sprintf("2001:db8:9::%x", idx+1))
	}
	return v4(10, 9, idx>>8, idx&255)
}

type replyPlan struct {
	at    time.Duration // delivery time
	id    uint16
	valid bool // a well-formed echo reply
	opIdx int
}

func runPing(e *exec) {
	w := e.w
	u := w.U
	var plans []replyPlan
	wfaults := 0 // write errors armed on the wire
	ops := e.sc.Ops
	c := newConc(e, nil)
	body := func(a *actor, i int, o Op) {
		idx := a.idx[i]
		switch o.K {
		case "ping":
			mac := u.MACs[world.MC1+o.M%3]
			dst := packet.Addr{MAC: world.HW(mac), IP: pingTarget(idx, o.I == 1)}
			to := pingTimeouts[o.X%len(pingTimeouts)]
			a.call(i, o, func() (int64, error) {
				if o.I == 1 {
					src := packet.Addr{MAC: world.HW(u.MACs[world.MOwn]), IP: u.HostLLA}
					return 0, w.S.Ping6(src, dst, to)
				}
				return 0, w.S.Ping(dst, to)
			})
		case "wfault":
			simrt.NetCtl(simrt.NetCtlWriteErrTemp, o.N)
			wfaults += o.N
			e.probe("write_fault_armed")
		case "unsolicited":
			// an echo reply nobody asked for, with a guessed identifier
			id := uint16(1 + o.N)
			mac := u.MACs[world.MC2]
			if o.I == 1 {
				src, dst := netip.MustParseAddr("2001:db8:9::ffff"), u.HostLLA
				typ := byte(129)
				if o.P == 1 {
					typ = 128
				}
				a.inject(i, "unsolicited6", 0, fb.Eth(u.MACs[world.MOwn], mac, 0x86dd, fb.IPv6(src, dst, 58, 64, fb.Echo6(src, dst, typ, id, 1, []byte("x")))))
			} else {
				typ := byte(0)
				if o.P == 1 {
					typ = 8
				}
				a.inject(i, "unsolicited4", 0, fb.Eth(u.MACs[world.MOwn], mac, 0x0800, fb.IPv4(v4(10, 9, 255, 255), u.HostIP, 1, 64, 1, fb.Echo4(typ, id, 1, []byte("x")))))
			}
			if o.P == 0 {
				plans = append(plans, replyPlan{at: now(), id: id, valid: true, opIdx: -1})
			}
		}
	}
	for _, a := range c.actors {
		a.body = body
	}
	// the echo responder lives in the wire monitor
	c.react = func(c *conc, out world.Out) {
		f := out.F
		var id uint16
		var idx int
		v6 := false
		switch {
		case f.ICMP4 != nil && f.ICMP4.Type == 8 && f.IP4 != nil:
			d := f.IP4.Dst.As4()
			if d[0] != 10 || d[1] != 9 {
				return
			}
			idx, id = int(d[2])<<8|int(d[3]), f.ICMP4.ID
		case f.ICMP6 != nil && f.ICMP6.Type == 128 && f.IP6 != nil:
			d := f.IP6.Dst.As16()
			if d[0] != 0x20 || d[5] != 9 {
				return
			}
			idx, id, v6 = (int(d[14])<<8|int(d[15]))-1, f.ICMP6.ID, true
		default:
			return
		}
		if idx < 0 || idx >= len(ops) || ops[idx].K != "ping" {
			return
		}
		o := ops[idx]
		lat := replyLatency[o.N%len(replyLatency)]
		to := effTimeout(o.X)
		sentAt := time.Duration(out.Time)
		mk := func(typ4, typ6 byte, rid uint16, truncated bool) []byte {
			mac := fb.MAC(f.Dst)
			if v6 {
				src, dst := f.IP6.Dst, f.IP6.Src
				msg := fb.Echo6(src, dst, typ6, rid, 1, []byte("pong"))
				if truncated {
					msg = msg[:3]
				}
				return fb.Eth(u.MACs[world.MOwn], mac, 0x86dd, fb.IPv6(src, dst, 58, 64, msg))
			}
			msg := fb.Echo4(typ4, rid, 1, []byte("pong"))
			if truncated {
				msg = msg[:5]
			}
			return fb.Eth(u.MACs[world.MOwn], mac, 0x0800, fb.IPv4(f.IP4.Dst, f.IP4.Src, 1, 64, 1, msg))
		}
		send := func(delay time.Duration, frame []byte, valid bool, rid uint16, tag string) {
			seq := simrt.Seq()
			simrt.NetInject(int64(delay), frame)
			c.monIn = append(c.monIn, inRec{Seq: seq, T: now() + delay, Tag: tag, OpIdx: idx})
			if valid {
				plans = append(plans, replyPlan{at: now() + delay, id: rid, valid: true, opIdx: idx})
			}
			e.probe("responder_" + tag)
		}
		switch o.P % numRB {
		case rbReply:
			send(lat, mk(0, 129, id, false), true, id, "reply")
		case rbDrop:
			e.probe("responder_drop")
		case rbDuplicate:
			send(lat, mk(0, 129, id, false), true, id, "reply")
			// the copy follows back to back (both queued before the loop reads either), shortly
			// after, or after the ping has most likely returned
			gap := []time.Duration{0, 0, time.Microsecond, time.Millisecond, 300 * time.Millisecond}[o.S%5]
			send(lat+gap, mk(0, 129, id, false), true, id, "duplicate")
			if gap == 0 {
				e.probe("responder_duplicate_back_to_back")
			}
		case rbForeignID:
			send(lat, mk(0, 129, id+1000, false), false, id+1000, "foreign_id")
		case rbEchoRequest:
			send(lat, mk(8, 128, id, false), false, id, "echo_request")
		case rbTruncated:
			send(lat, mk(0, 129, id, true), false, id, "truncated")
		case rbTooLate:
			send(to-(now()-sentAt)+50*time.Millisecond, mk(0, 129, id, false), true, id, "too_late")
		case rbAtDeadline:
			d := to - (now() - sentAt)
			if d < 0 {
				d = 0
			}
			send(d, mk(0, 129, id, false), true, id, "at_deadline")
		}
	}
	c.start()
	c.wg.Wait()
	simrt.Sleep(int64(12 * time.Second)) // late replies arrive; nothing may be left waiting
	simrt.Settle()
	c.stopMonitor()

	// ---- oracle ----
	stalls := e.sc.Cfg.StallDen > 0
	type pingInfo struct {
		rec   callRec
		id    uint16
		hasID bool
		start time.Duration
	}
	var pings []pingInfo
	for _, r := range c.calls() {
		if r.Op.K != "ping" {
			continue
		}
		pi := pingInfo{rec: r, start: r.TInv}
		// the identifier is read from the echo request the ping itself put on the wire
		for _, o := range c.out {
			if o.Seq < r.Inv || o.Seq > r.Ret {
				continue
			}
			if o.F.ICMP4 != nil && o.F.ICMP4.Type == 8 && o.F.IP4.Dst == pingTarget(r.Idx, false) {
				pi.id, pi.hasID = o.F.ICMP4.ID, true
			}
			if o.F.ICMP6 != nil && o.F.ICMP6.Type == 128 && o.F.IP6.Dst == pingTarget(r.Idx, true) {
				pi.id, pi.hasID = o.F.ICMP6.ID, true
			}
		}
		pings = append(pings, pi)
	}
	sendFailures := 0
	for _, p := range pings {
		r := p.rec
		to := effTimeout(r.Op.X)
		dead := r.TInv + to
		what := fmt.Sprintf("ping op %d (actor %d, v6=%v, timeout %v, behaviour %d, latency %v) invoked %v returned %v err=%q id=%d", r.Idx, r.Actor, r.Op.I == 1, to, r.Op.P%numRB, replyLatency[r.Op.N%len(replyLatency)], r.TInv, r.TRet, r.Err, p.id)
		if r.Err != "" && r.Err != packet.ErrTimeout.Error() && sendFailures < wfaults {
			// the echo request met an injected write error: the ping reports it; nothing else is owed
			sendFailures++
			e.probe("ping_send_failed")
			continue
		}
		if !p.hasID {
			e.violate("C19.request", "no-echo-request", what+": no echo request was written during the call")
			continue
		}
		if r.Err != "" && r.Err != packet.ErrTimeout.Error() {
			e.violate("C19.result", "unexpected-error", what)
			continue
		}
		// matching valid replies delivered while the ping was pending
		before, atDead := 0, 0
		for _, pl := range plans {
			if !pl.valid || pl.id != p.id {
				continue
			}
			// a reply delivered at the very instant of the invocation or of the deadline may
			// or may not be seen by this ping: either outcome is allowed for those
			// ... except the responder's reply to this very ping: it was caused by the echo request
			// on the wire, so it comes after the request whatever the clock says
			caused := pl.opIdx == r.Idx
			if (pl.at > r.TInv || caused) && pl.at < dead {
				before++
			} else if pl.at == dead || pl.at == r.TInv {
				atDead++
			}
		}
		if r.Err == "" {
			e.probe("ping_ok")
			if before+atDead == 0 {
				e.violate("C19.result", "nil-without-matching-reply", what+": returned nil but no echo reply with its identifier was delivered before the deadline")
			}
		} else {
			e.probe("ping_timeout")
			if before > 0 && !stalls {
				e.violate("C19.result", "timeout-despite-matching-reply", what+fmt.Sprintf(": returned ErrTimeout although %d matching echo reply(ies) were delivered strictly before the deadline %v", before, dead))
			}
		}
		if !stalls && r.TRet > dead {
			e.violate("C19.liveness", "return-after-deadline", what+fmt.Sprintf(": returned %v after its deadline %v", r.TRet-dead, dead))
		}
		if !stalls && r.Err != "" && r.TRet < dead {
			e.violate("C19.result", "timeout-before-deadline", what+fmt.Sprintf(": ErrTimeout %v before the deadline", dead-r.TRet))
		}
	}
	// identifiers of pings that overlap in time are pairwise distinct
	for i := range pings {
		for j := i + 1; j < len(pings); j++ {
			a, b := pings[i], pings[j]
			if a.hasID && b.hasID && a.id == b.id && a.rec.Inv < b.rec.Ret && b.rec.Inv < a.rec.Ret {
				e.violate("C19.ids", "overlapping-pings-share-identifier", fmt.Sprintf("pings op %d and op %d overlap and both use identifier %d", a.rec.Idx, b.rec.Idx, a.id))
			}
		}
	}
	if n := packet.VerifICMPWaiters(); n != 0 {
		e.violate("C19.waiters", "waiter-left-behind", fmt.Sprintf("%d waiter entries left after every ping returned", n))
	}
	e.res.Extra["pings"] = int64(len(pings))
	e.res.FramesOut += len(c.out)
}
