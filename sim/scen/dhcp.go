package scen

import (
	"bytes"
	"encoding/binary"
	"fmt"
	"net/netip"
	"sort"
	"strings"
	"time"

	"verif/sim/fb"
	"verif/sim/refdec"
	"verif/sim/simrt"
	"verif/sim/simtime"
	"verif/sim/world"
)

// ---- family "dhcp": sequential histories of DHCP client messages for C11 / C12 (and C18) ----

const nDHCPClients = 5

func genDHCP(prop string, seed uint64, tier string) Scenario {
	r := &rng{s: seed ^ 0xd4c9}
	sc := Scenario{Prop: prop, Family: "dhcp", Seed: seed}
	c := &sc.Cfg
	c.ProbeMin, c.OfflineMin, c.PurgeMin = 2, 5, 61
	hb := [][2]int{{24, 25}, {24, 28}, {25, 27}, {26, 28}, {27, 29}, {28, 30}, {28, 29}, {23, 25}, {22, 28}}[r.weighted([]int{2, 2, 2, 2, 3, 4, 3, 2, 1})]
	c.HomeBits, c.NFBits = hb[0], hb[1]
	c.NFLow = c.NFBits <= 28 && r.chance(1, 3)
	c.HostLLA = true
	c.DHCP = true
	c.DHCPMode = 1 + r.n(3)
	c.DNSAlt = r.chance(1, 2)
	c.LeaseFile = prop == "C18" || r.chance(1, 3)
	c.Debug = r.chance(1, 5)
	c.PreemptN = r.pick(0, 1, 4, 16)
	c.HintMax = r.pick(0, 0, 50)
	c.ReuseBuf = r.chance(1, 2)
	nclients := 2 + r.n(nDHCPClients-1)
	nops := 4 + r.n(30)
	if r.chance(1, 3) {
		nops = 2 + r.n(6)
	}
	if tier == "thorough" && r.chance(1, 4) {
		nops = 30 + r.n(50)
	}
	client := func() int { return r.n(nclients) }
	sub := func() int {
		if r.chance(3, 5) {
			return 0
		}
		return 1 + r.n(11)
	}
	if tier == "quick" {
		sc.Extra = map[string]int{"quick": 1}
	}
	// weights: disc req decl rel capture release adv tick foreign session(dora) fsfail contention
	wts := []int{18, 26, 5, 4, 5, 3, 10, 5, 6, 12, 0, 6, 4, 3, 3, 3, 3}
	if prop == "C12" {
		wts = []int{18, 26, 3, 3, 9, 6, 8, 4, 4, 14, 0, 5, 2, 4, 4, 1, 1}
	}
	if prop == "C18" {
		wts = []int{10, 12, 3, 2, 4, 2, 6, 3, 4, 30, 3, 4, 1, 2, 0, 1, 1}
		nops = 2 + r.n(14)
		sc.Family = "lease"
	}
	for len(sc.Ops) < nops {
		switch r.weighted(wts) {
		case 0:
			sc.Ops = append(sc.Ops, Op{K: "disc", M: client(), X: r.pick(0, 0, 0, 1), I: sub(), N: r.n(3), P: r.n(4), D: r.pick(0, 0, 0, 0, 1, 2)})
		case 1:
			sc.Ops = append(sc.Ops, Op{K: "req", M: client(), O: r.weighted([]int{10, 5, 6, 2}), X: r.pick(0, 0, 0, 1), S: r.pick(0, 0, 0, 1, 2), I: sub(), T: r.n(3), N: r.n(3), P: r.n(4), D: r.pick(0, 0, 0, 0, 1, 2)})
		case 2:
			sc.Ops = append(sc.Ops, Op{K: "decl", M: client(), S: r.pick(0, 0, 1), I: sub()})
		case 3:
			sc.Ops = append(sc.Ops, Op{K: "rel", M: client(), S: r.pick(0, 0, 1), I: r.pick(0, 0, 0, 2)})
		case 4:
			sc.Ops = append(sc.Ops, Op{K: "capture", M: client()})
		case 5:
			sc.Ops = append(sc.Ops, Op{K: "release", M: client()})
		case 6:
			sc.Ops = append(sc.Ops, Op{K: "adv", D: r.weighted([]int{6, 6, 8, 4, 3, 2, 2, 1})})
		case 7:
			sc.Ops = append(sc.Ops, Op{K: "tick"})
		case 8:
			sc.Ops = append(sc.Ops, Op{K: "foreign", I: r.n(8)})
		case 9: // a well-behaved DISCOVER/REQUEST pair
			m := client()
			p := r.n(4)
			sc.Ops = append(sc.Ops, Op{K: "disc", M: m, P: p, N: r.n(3)}, Op{K: "req", M: m, P: p, N: r.n(3)})
		case 10:
			sc.Ops = append(sc.Ops, Op{K: "fsfail", D: r.n(2), X: r.n(700)})
		case 11:
			// two identities between OFFER and REQUEST: two clients, or one MAC under two client ids
			m1, m2, p1, p2 := client(), client(), r.n(2), r.n(2)
			if r.chance(1, 2) {
				m2, p2 = m1, 1-p1
			}
			if r.chance(1, 3) {
				sc.Ops = append(sc.Ops, Op{K: "capture", M: m1})
				if m2 != m1 {
					sc.Ops = append(sc.Ops, Op{K: "capture", M: m2})
				}
			}
			sc.Ops = append(sc.Ops, Op{K: "disc", M: m1, P: p1}, Op{K: "disc", M: m2, P: p2}, Op{K: "req", M: m1, P: p1}, Op{K: "req", M: m2, P: p2})
		case 12:
			// a stale offer: A is offered X and does not take it; its unconfirmed lease is freed (ticker)
			// or its offer runs out; B asks for X by name and is acknowledged; A comes back with the
			// same transaction (retransmitted DISCOVER) or simply requests what it was offered
			a := client()
			b := (a + nclients - 1) % nclients // candidate selector 1 of b is "the offer of the next client", i.e. of a
			sc.Ops = append(sc.Ops, Op{K: "disc", M: a})
			switch r.n(4) {
			case 0, 1:
				sc.Ops = append(sc.Ops, Op{K: "tick"})
			case 2:
				sc.Ops = append(sc.Ops, Op{K: "adv", D: 2})
			}
			sc.Ops = append(sc.Ops, Op{K: "disc", M: b, I: 1}, Op{K: "req", M: b})
			if r.chance(2, 3) {
				sc.Ops = append(sc.Ops, Op{K: "disc", M: a, X: 1})
			}
			if r.chance(1, 2) {
				sc.Ops = append(sc.Ops, Op{K: "req", M: a})
			}
		case 16:
			// a client comes back for the address it used to hold after its lease ran out and somebody
			// else moved in
			m := client()
			sc.Ops = append(sc.Ops, Op{K: "disc", M: m}, Op{K: "req", M: m}, Op{K: "adv", D: 6})
			if r.chance(2, 3) {
				sc.Ops = append(sc.Ops, Op{K: "tick"})
			}
			sc.Ops = append(sc.Ops, Op{K: "foreign", M: m, X: 1}, Op{K: "disc", M: m, I: 12})
			if r.chance(1, 2) {
				sc.Ops = append(sc.Ops, Op{K: "req", M: m})
			}
		case 15:
			// a second device presents another client's identifier (a cloned or spoofed client id)
			sc.Ops = append(sc.Ops, Op{K: "clone", M: client(), I: r.n(4), O: r.n(3)})
		case 14:
			// the DHCP handler is restarted on the same session (the application reloads it): from the
			// lease file if there is one, now and then with another DNS server configured
			sc.Ops = append(sc.Ops, Op{K: "restart", X: r.pick(0, 0, 1)})
		case 13:
			// an abandoned re-DISCOVER in the middle of a lease must not prolong it: ACK at t0, DISCOVER
			// (no REQUEST) half-way through, then a renewal / reboot / rebind just after t0 + lease time
			m := client()
			sc.Ops = append(sc.Ops, Op{K: "disc", M: m}, Op{K: "req", M: m}, Op{K: "adv", D: 5}, Op{K: "disc", M: m, X: r.n(2)}, Op{K: "adv", D: 5}, Op{K: "adv", D: r.pick(0, 1, 4)}, Op{K: "req", M: m, O: 1 + r.n(3)})
		}
	}
	return sc
}

func dhcpAdv(code int) time.Duration {
	switch code {
	case 0:
		return time.Second
	case 1:
		return 3 * time.Second
	case 2:
		return 6 * time.Second // past the 5 s offer expiry
	case 3:
		return 25 * time.Second // past the attack back-off
	case 4:
		return 2 * time.Minute
	case 5:
		return 2 * time.Hour
	case 6:
		return 4*time.Hour + time.Minute // past the lease time
	default:
		return 9 * time.Hour
	}
}

// dhIdent is the DHCP client state of one identity (a MAC with or without a client-id option).
type dhIdent struct {
	idx      int
	mac      fb.MAC
	xid      uint32
	lastXID  [4]byte
	offer    netip.Addr // last OFFER received
	offerXID [4]byte
	lease    netip.Addr // last ACK received
}

type dhClient struct {
	idx   int
	mac   fb.MAC
	ident [2]*dhIdent // [0] no client-id option, [1] client id 01+mac
}

// id returns the identity a message with option variant p speaks for.
func (c *dhClient) id(p int) *dhIdent { return c.ident[p&1] }

// holding is the conservative holder table of C11.
type holding struct {
	cid   string
	until time.Duration
}

type ackRec struct {
	ip    netip.Addr
	until time.Duration
	mac   fb.MAC // the hardware address the acknowledgement went to
}

type offerRec struct {
	ip  netip.Addr
	xid [4]byte
	mac fb.MAC
}

type reqInfo struct {
	cid      string
	mac      fb.MAC
	xid      [4]byte
	typ      byte // 1 discover 3 request
	form     int  // request form: 0 selecting 1 init-reboot 2 renewing 3 rebinding
	serverID netip.Addr
	reqIP    netip.Addr // address the request is about
	captured bool
	optOrder []byte
}

type dhcpRun struct {
	*exec
	onAck         func(d *dhcpRun, ri *reqInfo, y netip.Addr)
	rediscovered  map[string]bool // client ids that sent a DISCOVER after their last ACK
	capturedOp    map[fb.MAC]bool // capture state as set through Capture/Release by this history
	failArmed     bool
	saveFailed    bool
	anySaveFailed bool
	cl            []*dhClient
	hold          map[netip.Addr]holding // conservative: who currently holds an acknowledged address
	lastAck       map[string]ackRec      // liberal: last address acknowledged to a client id
	offers        map[string]offerRec    // offers made per client id
	foreign       []netip.Addr
	acked         int
}

func clientID(variant int, mac fb.MAC) []byte {
	switch variant % 4 {
	case 1, 3:
		return append([]byte{1}, mac[:]...)
	}
	return nil // no option 61: the server falls back to chaddr
}

func cidKey(variant int, mac fb.MAC) string {
	if id := clientID(variant, mac); id != nil {
		return string(id)
	}
	return string(mac[:])
}

// candidate resolves a requested-address selector for a client.
func (d *dhcpRun) candidate(c *dhIdent, sel int, def netip.Addr) netip.Addr {
	u := d.w.U
	oc := d.cl[(c.idx+1)%len(d.cl)]
	other := oc.ident[0]
	if !other.offer.IsValid() && !other.lease.IsValid() {
		other = oc.ident[1]
	}
	switch sel {
	case 0:
		return def
	case 1:
		return other.offer
	case 2:
		return other.lease
	case 3:
		return u.Home.Addr()
	case 4:
		return u.HomeBcast
	case 5:
		return u.RouterIP
	case 6:
		return u.HostIP
	case 7:
		return netip.MustParseAddr("8.8.8.8")
	case 8:
		return world.AddN(u.NF.Addr(), 2)
	case 9:
		return u.IP4[world.FirstClientIP4+c.idx%(len(u.IP4)-world.FirstClientIP4)]
	case 10:
		return u.NFBcast
	case 12:
		return c.lease // the address this client held last, whatever became of that lease
	default:
		if len(d.foreign) > 0 {
			return d.foreign[len(d.foreign)-1]
		}
		return world.AddN(u.Home.Addr(), 3)
	}
}

func ipOpt(code byte, a netip.Addr) fb.DHCPOpt {
	x := a.As4()
	return fb.DHCPOpt{Code: code, Data: x[:]}
}

var paramLists = [][]byte{{1, 3, 6, 15}, {3, 1, 6, 51}, {6, 3, 1, 121, 33}, nil}
var hostnames = []string{"", "laptop", "phone"}

// send builds and injects one client message and returns what the oracle must know about it.
func (d *dhcpRun) send(c *dhIdent, typ byte, o Op, ri reqInfo, srcIP netip.Addr, ciaddr netip.Addr, unicast bool, opts []fb.DHCPOpt) reqInfo {
	u := d.w.U
	msg := fb.DHCP{Op: 1, XID: ri.xid, CHAddr: c.mac, CIAddr: ciaddr}
	if o.T == 1 {
		msg.Flags = 0x8000
	}
	msg.Options = append(msg.Options, fb.DHCPOpt{Code: 53, Data: []byte{typ}})
	if id := clientID(o.P, c.mac); id != nil {
		msg.Options = append(msg.Options, fb.DHCPOpt{Code: 61, Data: id})
	}
	msg.Options = append(msg.Options, opts...)
	if hn := hostnames[o.N%len(hostnames)]; hn != "" {
		msg.Options = append(msg.Options, fb.DHCPOpt{Code: 12, Data: []byte(hn)})
	}
	if pl := paramLists[o.P%len(paramLists)]; pl != nil {
		msg.Options = append(msg.Options, fb.DHCPOpt{Code: 55, Data: pl})
		ri.optOrder = pl
	}
	dstMAC, dstIP := fb.Broadcast, netip.MustParseAddr("255.255.255.255")
	if unicast {
		dstMAC, dstIP = u.MACs[world.MOwn], u.HostIP
	}
	udp := fb.UDP(68, 67, msg.Bytes())
	frame := fb.Eth(dstMAC, c.mac, 0x0800, fb.IPv4(srcIP, dstIP, 17, 64, uint16(d.step), udp))
	ri.cid = cidKey(o.P, c.mac)
	ri.mac = c.mac
	ri.typ = typ
	ri.captured = d.w.S.IsCaptured(world.HW(c.mac))
	d.w.Inject(frame)
	if o.D == 2 { // duplicated on the wire
		d.w.Inject(append([]byte(nil), frame...))
		d.probe("request_duplicated")
	}
	return ri
}

func (d *dhcpRun) now() time.Duration { return time.Duration(simrt.Now()) }

func (d *dhcpRun) endHolding(cid string, why string) {
	var ips []netip.Addr
	for ip := range d.hold {
		ips = append(ips, ip)
	}
	sort.Slice(ips, func(i, j int) bool { return ips[i].Compare(ips[j]) < 0 })
	for _, ip := range ips {
		h := d.hold[ip]
		if h.cid == cid {
			delete(d.hold, ip)
			d.tr("holding of %s by %x ends: %s", ip, cid, why)
		}
	}
}

func runDHCP(e *exec) { runDHCPCore(e, nil) }

func (d *dhcpRun) lastSaveFailed() bool { return d.saveFailed }

func runDHCPCore(e *exec, onAck func(d *dhcpRun, ri *reqInfo, y netip.Addr)) *dhcpRun {
	w := e.w
	u := w.U
	d := &dhcpRun{exec: e, onAck: onAck, rediscovered: map[string]bool{}, capturedOp: map[fb.MAC]bool{}, hold: map[netip.Addr]holding{}, lastAck: map[string]ackRec{}, offers: map[string]offerRec{}}
	for i := 0; i < nDHCPClients; i++ {
		c := &dhClient{idx: i, mac: u.MACs[world.MC1+i]}
		for v := 0; v < 2; v++ {
			c.ident[v] = &dhIdent{idx: i, mac: c.mac, xid: uint32(0x1000*(i+1) + 0x800*v)}
		}
		d.cl = append(d.cl, c)
	}
	w.StartLoop()
	simrt.Settle()
	w.PollOut()
	zero := netip.MustParseAddr("0.0.0.0")

	for i, o := range e.sc.Ops {
		e.step = i
		e.res.OpsRun++
		e.res.OpKinds[o.K]++
		var ri *reqInfo
		switch o.K {
		case "disc":
			c := d.cl[o.M%len(d.cl)].id(o.P)
			if o.X == 0 || c.lastXID == ([4]byte{}) {
				c.xid++
				binary.BigEndian.PutUint32(c.lastXID[:], c.xid)
			} else {
				d.probe("discover_repeated_xid")
			}
			var opts []fb.DHCPOpt
			req := d.candidate(c, o.I, netip.Addr{})
			if req.IsValid() {
				opts = append(opts, ipOpt(50, req))
				if o.I != 0 {
					d.probe("discover_requested_ip_substituted")
				}
			}
			r := d.send(c, 1, o, reqInfo{xid: c.lastXID, reqIP: req}, zero, zero, false, opts)
			ri = &r
			d.rediscovered[r.cid] = true
		case "req":
			c := d.cl[o.M%len(d.cl)].id(o.P)
			xid := c.lastXID
			if o.X == 1 {
				c.xid++
				binary.BigEndian.PutUint32(xid[:], c.xid)
				d.probe("request_other_xid")
			}
			r := reqInfo{xid: xid, form: o.O}
			var opts []fb.DHCPOpt
			src, ci := zero, zero
			unicast := false
			switch o.O {
			case 0: // selecting
				r.reqIP = d.candidate(c, o.I, c.offer)
				switch o.S {
				case 0:
					r.serverID = u.HostIP
				case 1:
					r.serverID = u.RouterIP
					d.probe("select_other_server")
				default:
					r.serverID = u.HostIP // selecting always names a server
				}
				opts = append(opts, ipOpt(54, r.serverID))
				if r.reqIP.IsValid() {
					opts = append(opts, ipOpt(50, r.reqIP))
				}
			case 1: // init-reboot
				r.reqIP = d.candidate(c, o.I, c.lease)
				if r.reqIP.IsValid() {
					opts = append(opts, ipOpt(50, r.reqIP))
				}
			case 2: // renewing: unicast from ciaddr
				r.reqIP = d.candidate(c, o.I, c.lease)
				if r.reqIP.IsValid() && r.reqIP.Is4() {
					ci, src = r.reqIP, r.reqIP
				}
				unicast = true
			default: // rebinding: broadcast, ciaddr filled in
				r.reqIP = d.candidate(c, o.I, c.lease)
				if r.reqIP.IsValid() && r.reqIP.Is4() {
					ci = r.reqIP
				}
				src = netip.MustParseAddr("255.255.255.255")
			}
			if o.I != 0 {
				d.probe("request_ip_substituted")
			}
			if r.serverID.IsValid() && r.serverID != u.HostIP {
				d.endHolding(cidKey(o.P, c.mac), "client selected another server")
			}
			rr := d.send(c, 3, o, r, src, ci, unicast, opts)
			ri = &rr
		case "decl":
			c := d.cl[o.M%len(d.cl)].id(o.P)
			ip := d.candidate(c, o.I, c.lease)
			sid := u.HostIP
			if o.S == 1 {
				sid = u.RouterIP
			}
			var opts []fb.DHCPOpt
			opts = append(opts, ipOpt(54, sid))
			if ip.IsValid() {
				opts = append(opts, ipOpt(50, ip))
			}
			for v := 0; v < 2; v++ {
				d.endHolding(cidKey(v, c.mac), "client declined")
			}
			if la, ok := d.lastAck[cidKey(o.P, c.mac)]; ok && o.S == 0 && la.ip == ip {
				// addressed to us and naming the leased address: the server gives that lease up
				delete(d.lastAck, cidKey(o.P, c.mac))
			}
			d.send(c, 4, o, reqInfo{xid: c.lastXID}, zero, zero, false, opts)
			c.lease = netip.Addr{}
		case "rel":
			c := d.cl[o.M%len(d.cl)].id(o.P)
			ip := d.candidate(c, o.I, c.lease)
			sid := u.HostIP
			if o.S == 1 {
				sid = u.RouterIP
			}
			for v := 0; v < 2; v++ {
				d.endHolding(cidKey(v, c.mac), "client released")
			}
			src := zero
			ci := zero
			if ip.IsValid() && ip.Is4() {
				src, ci = ip, ip
			}
			d.send(c, 7, o, reqInfo{xid: c.lastXID}, src, ci, true, []fb.DHCPOpt{ipOpt(54, sid)})
			c.lease = netip.Addr{}
		case "capture":
			c := d.cl[o.M%len(d.cl)]
			w.S.Capture(world.HW(c.mac))
			d.capturedOp[c.mac] = true
			for v := 0; v < 2; v++ {
				d.endHolding(cidKey(v, c.mac), "capture state changed")
			}
			d.probe("capture_toggle")
		case "release":
			c := d.cl[o.M%len(d.cl)]
			w.S.Release(world.HW(c.mac))
			d.capturedOp[c.mac] = false
			for v := 0; v < 2; v++ {
				d.endHolding(cidKey(v, c.mac), "capture state changed")
			}
		case "adv":
			w.Advance(dhcpAdv(o.D), func() { w.Drain(); w.PollOut() })
			continue
		case "clone":
			a := d.cl[o.M%len(d.cl)]
			b := d.cl[(o.M+1+o.I%(len(d.cl)-1))%len(d.cl)]
			if a == b {
				continue
			}
			id := append([]byte{1}, a.mac[:]...)
			cid := string(id)
			victim := a.ident[1]
			// Two devices under one identifier: whichever way the server resolves it, the lease on
			// record for that identifier is in doubt, so the holder table owes it nothing any more
			// (the liberal record of its last acknowledgement stays: the server may keep the lease).
			// What remains owed is to everybody else: the second device must not be handed what
			// the session tracks for the first.
			d.endHolding(cid, "the same client id arrived from another MAC") // conservative table only: the server may as well keep the lease
			bi := b.ident[1]
			bi.xid++
			var xid [4]byte
			binary.BigEndian.PutUint32(xid[:], bi.xid)
			msg := fb.DHCP{Op: 1, XID: xid, CHAddr: b.mac}
			r := reqInfo{xid: xid, cid: cid, mac: b.mac, typ: 1, captured: w.S.IsCaptured(world.HW(b.mac))}
			switch {
			case o.O == 0 || !victim.lease.IsValid():
				msg.Options = []fb.DHCPOpt{{Code: 53, Data: []byte{1}}, {Code: 61, Data: id}}
			case o.O == 1: // selecting the victim's leased address
				r.typ, r.form, r.reqIP, r.serverID = 3, 0, victim.lease, u.HostIP
				msg.Options = []fb.DHCPOpt{{Code: 53, Data: []byte{3}}, {Code: 61, Data: id}, ipOpt(54, u.HostIP), ipOpt(50, victim.lease)}
			default: // init-reboot for it
				r.typ, r.form, r.reqIP = 3, 1, victim.lease
				msg.Options = []fb.DHCPOpt{{Code: 53, Data: []byte{3}}, {Code: 61, Data: id}, ipOpt(50, victim.lease)}
			}
			w.Inject(fb.Eth(fb.Broadcast, b.mac, 0x0800, fb.IPv4(zero, netip.MustParseAddr("255.255.255.255"), 17, 64, uint16(d.step), fb.UDP(68, 67, msg.Bytes()))))
			ri = &r
			d.probe("client_id_from_another_mac")
		case "restart":
			flip := o.X == 1
			if err := w.RestartDHCP(flip); err != nil {
				d.violate(e.sc.Prop+".restart", "constructor-error", fmt.Sprintf("restart of the DHCP handler (dns changed=%v): %v", flip, err))
				continue
			}
			if flip || !w.Cfg.LeaseFile {
				// nothing was kept (no lease file) or the configuration changed, which resets the
				// lease table: the server starts from scratch and so does the model of what it owes
				d.hold = map[netip.Addr]holding{}
				d.lastAck = map[string]ackRec{}
				d.offers = map[string]offerRec{}
				d.probe("restart_forgetting_everything")
			} else {
				d.probe("restart_from_lease_file")
			}
			continue
		case "tick":
			w.DHCP.MinuteTicker(simtime.Now())
			d.probe("minute_ticker")
			continue
		case "fsfail":
			if o.D == 0 {
				simrt.FSCtl(simrt.FSCtlFailWrite, 1, simrt.FSENOSPC, int64(o.X), nil)
			} else {
				simrt.FSCtl(simrt.FSCtlFailWrite, 1, simrt.FSEIO, 0, nil)
			}
			d.failArmed = true
			d.probe("disk_fault_armed")
			continue
		case "foreign":
			ip := u.IP4[world.FirstClientIP4+o.I%(len(u.IP4)-world.FirstClientIP4)]
			if o.X == 1 { // ... on the address client M held last
				if l := d.cl[o.M%len(d.cl)].id(o.P).lease; l.IsValid() {
					ip = l
				}
			}
			d.foreign = append(d.foreign, ip)
			f := fb.Eth(u.MACs[world.MRouter], u.MACs[world.MCtl1], 0x0800, fb.IPv4(ip, u.RouterIP, 17, 64, 9, fb.UDP(5000, 5001, []byte("x"))))
			w.Inject(f)
			d.probe("foreign_host_on_pool_address")
		}
		simrt.Settle()
		w.Drain()
		d.checkReplies(ri, o)
		if e.fatal {
			break
		}
	}
	e.res.FramesIn = w.Frames
	e.res.Extra["acks"] = int64(d.acked)
	return d
}

// checkReplies decodes what the server put on the wire after one client message and applies
// the C11 and C12 oracles to every reply addressed to a client.
func (d *dhcpRun) checkReplies(ri *reqInfo, o Op) {
	u := d.w.U
	outs := d.w.PollOut()
	d.res.FramesOut += len(outs)
	nReplies := 0
	for _, out := range outs {
		f := out.F
		if f.DHCP != nil && f.DHCP.Op == 1 && (f.DHCP.MsgType == 4 || f.DHCP.MsgType == 7) {
			// a DECLINE/RELEASE forged towards the real router on behalf of the client whose
			// message was just processed: it must carry that client's hardware address and xid
			d.probe("forced_decline_or_release")
			if ri != nil {
				if f.DHCP.CHAddr != refdec.MAC(ri.mac) {
					d.violateSoft("C07.intent", "forced-decline:chaddr", fmt.Sprintf("forged %s carries chaddr %s, the client it speaks for is %x: %s", map[byte]string{4: "DECLINE", 7: "RELEASE"}[f.DHCP.MsgType], f.DHCP.CHAddr, ri.mac, f.Describe()))
				}
				if f.DHCP.MsgType == 4 && f.DHCP.XID != ri.xid {
					d.violateSoft("C07.intent", "forced-decline:xid", fmt.Sprintf("forged DECLINE carries xid %x, the request it reacts to had %x", f.DHCP.XID, ri.xid))
				}
				if cid, ok := f.DHCP.Opt(61); ok && f.DHCP.MsgType == 4 {
					want := []byte(ri.cid)
					if !bytes.Equal(cid, want) {
						d.violateSoft("C07.intent", "forced-decline:client-id", fmt.Sprintf("forged DECLINE carries client id %x, the client it speaks for is %x", cid, want))
					}
				}
			}
			continue
		}
		if f.DHCP == nil || f.DHCP.Op != 2 {
			continue // attack bursts are client-side messages to the router
		}
		nReplies++
		dh := f.DHCP
		d.tr("reply %s", f.Describe())
		if ri == nil {
			d.violate("C12.unsolicited", "reply-without-request", "server reply without a client request: "+f.Describe())
			continue
		}
		d.checkReply(ri, dh, f, u)
	}
	if ri != nil {
		if nReplies == 0 {
			d.probe("request_unanswered")
		}
		c := d.identOf(ri)
		if o.D == 1 && c != nil { // reply lost on the wire: the client never learns it
			d.probe("reply_lost")
		}
	}
}

// identOf returns the simulated client identity a request was sent for.
func (d *dhcpRun) identOf(ri *reqInfo) *dhIdent {
	for _, c := range d.cl {
		if c.mac == ri.mac {
			if len(ri.cid) == 7 {
				return c.ident[1]
			}
			return c.ident[0]
		}
	}
	return nil
}

func (d *dhcpRun) checkReply(ri *reqInfo, dh *refdec.DHCP, f *refdec.Frame, u *world.Universe) {
	now := d.now()
	c := d.identOf(ri)
	lost := false
	if d.step < len(d.sc.Ops) && d.sc.Ops[d.step].D == 1 {
		lost = true
	}
	subnet, gw, dns := u.Home, u.RouterIP, u.RouterIP
	if d.w.Cfg.DNSAlt {
		dns = u.AltDNS
	}
	if ri.captured {
		subnet, gw, dns = u.NF, u.HostIP, netip.MustParseAddr("1.1.1.3")
	}
	kind := map[byte]string{2: "offer", 5: "ack", 6: "nak"}[dh.MsgType]
	if kind == "" {
		d.violate("C12.type", fmt.Sprintf("type-%d", dh.MsgType), "unexpected reply type: "+f.Describe())
		return
	}
	d.probe("reply_" + kind)
	// transaction echo
	if dh.XID != ri.xid {
		d.violate("C12.echo", kind+":xid", fmt.Sprintf("%s carries xid %x, request had %x", kind, dh.XID, ri.xid))
	}
	if dh.CHAddr != refdec.MAC(ri.mac) {
		d.violate("C12.echo", kind+":chaddr", fmt.Sprintf("%s carries chaddr %s, request had %x", kind, dh.CHAddr, ri.mac))
	}
	if sid, ok := dh.OptIP(54); !ok || sid != u.HostIP {
		if kind != "nak" { // the statement constrains OFFER and ACK
			d.violate("C12.options", kind+":server-id", fmt.Sprintf("%s server identifier %v, want %s", kind, sid, u.HostIP))
		}
	}
	if kind == "nak" {
		if c != nil && !lost {
			c.lease = netip.Addr{}
			c.offer = netip.Addr{}
		}
		d.endHolding(ri.cid, "NAK") // conservative table only: the server may keep the lease
		return
	}
	y := dh.YIAddr
	// ---- C11: reserved addresses ----
	reserved := ""
	switch {
	case !subnet.Contains(y):
		reserved = "outside-subnet"
		if y.IsUnspecified() {
			reserved = "outside-subnet-zero"
		}
	case y == u.HostIP:
		reserved = "host-address"
	case y == u.RouterIP:
		reserved = "router-address"
	case y == subnet.Addr():
		reserved = "network-address"
	case y == lastOf(subnet):
		reserved = "broadcast-address"
	}
	if reserved == "" {
		if h := d.w.S.FindIP(y); h != nil {
			h.MACEntry.Row.RLock()
			other := !bytes.Equal(h.MACEntry.MAC, ri.mac[:])
			h.MACEntry.Row.RUnlock()
			if other {
				reserved = "tracked-for-other-mac"
			}
		}
	}
	if reserved == "tracked-for-other-mac" {
		// distinguish the server confirming the client's own unexpired lease from a fresh allocation
		if cur, ok := d.lastAck[ri.cid]; ok && cur.ip == y && now <= cur.until && cur.mac == ri.mac {
			reserved += ":clients-own-lease"
		} else if of, ok := d.offers[ri.cid]; ok && of.ip == y && of.mac == ri.mac {
			reserved += ":address-already-on-offer-to-this-client"
		} else if cur, ok := d.lastAck[ri.cid]; ok && cur.ip == y && now <= cur.until {
			// the identifier's lease, but it was acknowledged to another hardware address: this
			// device is handed what belongs to (and is tracked for) the other one
			reserved += ":lease-of-this-client-id-acknowledged-to-another-mac"
		} else {
			reserved += ":new-allocation"
		}
	}
	if strings.HasPrefix(reserved, "tracked-for-other-mac") {
		d.violateSoft("C11.reserved", kind+":"+reserved, fmt.Sprintf("%s of %s to client %x (captured=%v, subnet %s): %s", kind, y, ri.cid, ri.captured, subnet, reserved))
	} else if reserved != "" {
		d.violate("C11.reserved", kind+":"+reserved, fmt.Sprintf("%s of %s to client %x (captured=%v, subnet %s): %s", kind, y, ri.cid, ri.captured, subnet, reserved))
	}
	// ---- C11: uniqueness ----
	if h, ok := d.hold[y]; ok && h.cid != ri.cid && now < h.until {
		key := kind + ":held-by-other-client"
		// did the holder silently lose its capture state (the session purged its MAC entry)?
		var hm fb.MAC
		if len(h.cid) == 7 {
			copy(hm[:], h.cid[1:])
		} else {
			copy(hm[:], h.cid)
		}
		if d.capturedOp[hm] && !d.w.S.IsCaptured(world.HW(hm)) {
			key += ":holder-capture-state-lost-with-its-purged-mac-entry"
		}
		d.violateSoft("C11.unique", key, fmt.Sprintf("%s of %s to client %x while it is acknowledged to client %x until %v (now %v)", kind, y, ri.cid, h.cid, h.until, now))
	}
	// ---- C12: options ----
	if gwOpt, ok := dh.OptIP(3); !ok || gwOpt != gw {
		d.violate("C12.options", kind+":router", fmt.Sprintf("%s router option %v, want %s (captured=%v)", kind, gwOpt, gw, ri.captured))
	}
	if dnsOpt, ok := dh.OptIP(6); !ok || dnsOpt != dns {
		d.violate("C12.options", kind+":dns", fmt.Sprintf("%s dns option %v, want %s (captured=%v)", kind, dnsOpt, dns, ri.captured))
	}
	wantMask := maskOf(subnet.Bits())
	if m, ok := dh.Opt(1); !ok || !bytes.Equal(m, wantMask) {
		d.violate("C12.options", kind+":mask", fmt.Sprintf("%s subnet mask %v, want %v (captured=%v)", kind, m, wantMask, ri.captured))
	}
	if i1, i3 := dh.OptIndex(1), dh.OptIndex(3); i1 >= 0 && i3 >= 0 && i1 > i3 {
		d.violate("C12.options", kind+":mask-after-router", fmt.Sprintf("%s places the subnet mask (index %d) after the router option (index %d)", kind, i1, i3))
	}
	lt, ok := dh.Opt(51)
	if !ok || len(lt) != 4 {
		d.violate("C12.options", kind+":lease-time", fmt.Sprintf("%s without a lease time option", kind))
	}
	if !subnet.Contains(y) {
		d.violate("C12.subnet", kind+":outside-subnet", fmt.Sprintf("%s of %s outside the subnet %s selected by captured=%v", kind, y, subnet, ri.captured))
	}
	if kind == "offer" {
		if ri.typ != 1 {
			d.violate("C12.type", "offer-to-request", "OFFER in reply to a REQUEST")
		}
		d.offers[ri.cid] = offerRec{ip: y, xid: ri.xid, mac: ri.mac}
		if c != nil && !lost {
			c.offer = y
			c.offerXID = ri.xid
		}
		return
	}
	// ---- ACK ----
	d.acked++
	if ri.typ != 3 {
		d.violate("C12.type", "ack-to-discover", "ACK in reply to a DISCOVER")
	}
	offered := false
	if of, ok := d.offers[ri.cid]; ok && of.xid == ri.xid && of.ip == y {
		offered = true
	}
	cur, hasCur := d.lastAck[ri.cid]
	current := hasCur && cur.ip == y && now <= cur.until
	if !offered && !current {
		k := "ack-neither-offered-nor-current"
		if y.IsUnspecified() {
			k = "ack-zero-address"
		}
		d.violate("C12.ack", k, fmt.Sprintf("ACK of %s to client %x (form %d, xid %x): not the address offered in this transaction (%v) nor the client's current lease (%v, valid=%v)", y, ri.cid, ri.form, ri.xid, d.offers[ri.cid], cur.ip, current))
	}
	// requests that cannot be honoured must not be acknowledged
	if ri.form == 0 && ri.serverID.IsValid() && ri.serverID != u.HostIP && d.w.Cfg.DHCPMode != 1 {
		d.violate("C12.nak", "ack-for-other-server", fmt.Sprintf("ACK although the client selected server %s (mode %d)", ri.serverID, d.w.Cfg.DHCPMode))
	}
	if ri.form != 0 && !current {
		d.violate("C12.nak", fmt.Sprintf("ack-form%d-without-valid-lease", ri.form), fmt.Sprintf("ACK of %s for a form-%d request although the client has no valid lease on it (last ack %v until %v, now %v)", y, ri.form, cur.ip, cur.until, now))
	}
	if ri.reqIP.IsValid() && !subnet.Contains(ri.reqIP) {
		d.violate("C12.nak", "ack-for-address-outside-subnet", fmt.Sprintf("ACK for a request of %s outside the client's subnet %s", ri.reqIP, subnet))
	}
	// book keeping: the client now holds y
	lease := 4 * time.Hour
	if ok && len(lt) == 4 {
		lease = time.Duration(binary.BigEndian.Uint32(lt)) * time.Second
	}
	d.endHolding(ri.cid, "ACK of a (possibly different) address")
	d.hold[y] = holding{cid: ri.cid, until: now + lease}
	d.lastAck[ri.cid] = ackRec{ip: y, until: now + lease, mac: ri.mac}
	delete(d.offers, ri.cid)
	if c != nil && !lost {
		c.lease = y
	}
	d.probe("ack_recorded")
	delete(d.rediscovered, ri.cid)
	d.saveFailed = d.failArmed // the save that follows this ACK met the armed disk fault
	if d.failArmed {
		d.failArmed, d.anySaveFailed = false, true
	}
	if d.onAck != nil {
		d.onAck(d, ri, y)
	}
}

func lastOf(p netip.Prefix) netip.Addr {
	a := p.Masked().Addr().As4()
	m := maskOf(p.Bits())
	for i := range a {
		a[i] |= ^m[i]
	}
	return netip.AddrFrom4(a)
}

func maskOf(bits int) []byte {
	m := make([]byte, 4)
	for i := 0; i < bits; i++ {
		m[i/8] |= 1 << (7 - i%8)
	}
	return m
}
