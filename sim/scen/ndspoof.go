package scen

import (
	"encoding/json"
	"fmt"
	"net/netip"
	"sort"
	"strings"
	"time"

	"github.com/irai/packet"
	icmp "github.com/irai/packet/handlers/icmp_spoofer"

	"verif/sim/fb"
	"verif/sim/refdec"
	"verif/sim/simrt"
	"verif/sim/world"
)

// ---- family "ndspoof": C14 ----

func genNDSpoof(prop string, seed uint64, tier string) Scenario {
	r := &rng{s: seed ^ 0x1c6}
	sc := Scenario{Prop: prop, Family: "ndspoof", Seed: seed}
	c := &sc.Cfg
	c.ProbeMin, c.OfflineMin, c.PurgeMin = 2, 5, 61
	c.HomeBits, c.NFBits = 24, 25
	c.HostLLA = true
	c.HostGUA = r.chance(1, 2)
	c.ICMP6 = true
	c.Concurrent = true
	c.ReuseBuf = r.chance(1, 2)
	c.Debug = r.chance(1, 4)
	c.PreemptN = r.pick(1, 1, 4, 16)
	c.HintMax = r.pick(0, 10, 100)
	if r.chance(1, 4) {
		c.StallDen = r.pick(64, 256)
	}
	ntargets := 2 + r.n(3)
	napi := 1 + r.n(2)
	nops := 4 + r.n(20)
	if r.chance(1, 3) {
		nops = 2 + r.n(5)
	}
	for i := 0; i < nops; i++ {
		m := r.n(ntargets)
		switch r.weighted([]int{10, 8, 9, 3}) {
		case 0:
			// I: address form of the target: 0 link-local, 1 none, 2 global, 3 IPv4
			sc.Ops = append(sc.Ops, Op{K: "hunt6", T: r.n(napi), M: m, I: r.weighted([]int{6, 3, 2, 2}), D: r.weighted([]int{4, 2, 2, 2, 2, 2, 1})})
		case 1:
			sc.Ops = append(sc.Ops, Op{K: "unhunt6", T: r.n(napi), M: m, I: r.weighted([]int{6, 3, 1, 1}), D: r.weighted([]int{3, 2, 2, 2, 2, 2, 2})})
		case 2:
			// RA: N selects the option list, P flags/preference, X lifetimes, S the router (0 main, 1 second)
			sc.Ops = append(sc.Ops, Op{K: "ra", T: 20, N: r.n(64), P: r.n(16), X: r.n(5), S: r.pick(0, 0, 0, 1), D: r.weighted([]int{2, 2, 3, 3, 3, 3, 1})})
		case 3:
			sc.Ops = append(sc.Ops, Op{K: "ns", T: 10 + m, M: m, I: r.n(3), D: r.n(6), S: r.pick(0, 0, 1)})
		}
	}
	return sc
}

// raOf builds the router advertisement of an "ra" op.
func raOf(u *world.Universe, o Op) (fb.RA, fb.MAC, netip.Addr) {
	rmac := u.MACs[world.MRouter]
	rip := u.RouterLLA
	if o.S == 1 {
		rmac = u.MACs[world.MC5]
		rip = u.IP6(world.MC5, 0)
	}
	ra := fb.RA{HopLimit: byte(o.P * 17), Managed: o.P&1 == 1, Other: o.P&2 == 2, Prf: byte(o.P>>2) & 3}
	switch o.X {
	case 0:
		ra.Lifetime, ra.Reachable, ra.Retrans = 1800, 0, 0
	case 1:
		ra.Lifetime, ra.Reachable, ra.Retrans = 0, 30000, 1000
	case 2:
		ra.Lifetime, ra.Reachable, ra.Retrans = 65535, 3600000, 4294967295
	case 3:
		ra.Lifetime, ra.Reachable, ra.Retrans = 9000, 1, 1
	default:
		ra.Lifetime, ra.Reachable, ra.Retrans = 30, 600000, 120000
	}
	if o.N&1 != 0 {
		ra.Options = append(ra.Options, fb.OptSourceLLA(rmac))
	}
	if o.N&2 != 0 {
		ra.Options = append(ra.Options, fb.OptPrefix(netip.MustParsePrefix("2001:db8:1::/64"), true, true, 86400, 14400))
	}
	if o.N&4 != 0 {
		ra.Options = append(ra.Options, fb.OptMTU(1280+uint32(o.N)))
	}
	if o.N&8 != 0 {
		ra.Options = append(ra.Options, fb.OptRDNSS(600, netip.MustParseAddr("2001:db8::53"), netip.MustParseAddr("2001:db8::54")))
	}
	if o.N&16 != 0 {
		ra.Options = append(ra.Options, fb.OptPrefix(netip.MustParsePrefix("fd00:1::/48"), false, true, 0xffffffff, 0))
	}
	if o.N&32 != 0 {
		ra.Options = append(ra.Options, fb.NDOption{Type: 14, Data: []byte{1, 2, 3, 4, 5, 6}}) // unknown type (nonce)
	}
	switch (o.N + o.P) % 5 {
	case 1:
		ra.Options = append(ra.Options, fb.OptDNSSL(1200, "lan"))
	case 2:
		ra.Options = append(ra.Options, fb.OptDNSSL(600, "home.arpa", "lan"))
	case 3:
		ra.Options = append(ra.Options, fb.OptDNSSL(0xffffffff, "a.example.com", "corp.example.net", "lan"))
	}
	switch (o.N + 2*o.P) % 7 {
	case 1:
		ra.Options = append(ra.Options, fb.OptRouteInfo(netip.MustParsePrefix("2001:db8:77::/48"), 1, 1800, true))
	case 2:
		ra.Options = append(ra.Options, fb.OptRouteInfo(netip.MustParsePrefix("fd00:abcd:0:1::/64"), 3, 0xffffffff))
	case 3:
		ra.Options = append(ra.Options, fb.OptRouteInfo(netip.MustParsePrefix("2001:db8:77::9/128"), 0, 600)) // a host route
	case 4:
		ra.Options = append(ra.Options, fb.OptRouteInfo(netip.MustParsePrefix("::/0"), 1, 1800)) // default route, no prefix bytes
	case 5:
		ra.Options = append(ra.Options, fb.OptRouteInfo(netip.MustParsePrefix("2001:db8:77:1:aa00::/72"), 3, 60))
	}
	return ra, rmac, rip
}

// routerView renders a learned router, or a decoded RA, in one canonical form.
func routerViewLib(r icmp.Router) string {
	var pfx []string
	for _, p := range r.Prefixes {
		pfx = append(pfx, fmt.Sprintf("%s/%d on=%v auto=%v valid=%d pref=%d", netipOf(p.Prefix), p.PrefixLength, p.OnLink, p.AutonomousAddressConfiguration, int64(p.ValidLifetime/time.Second), int64(p.PreferredLifetime/time.Second)))
	}
	var dns []string
	for _, s := range r.Options.RDNSS.Servers {
		dns = append(dns, netipOf(s).String())
	}
	route := ""
	if ri := r.Options.RouteInformation; ri.Prefix != nil {
		var full [16]byte // the library keeps only the bytes covered by the prefix length
		copy(full[:], ri.Prefix)
		route = fmt.Sprintf("%s/%d prf=%d life=%d", netip.AddrFrom16(full), ri.PrefixLength, int(ri.Preference)&3, int64(ri.RouteLifetime/time.Second))
	}
	return fmt.Sprintf("mac=%x ip=%s M=%v O=%v prf=%d hop=%d life=%d reach=%d retrans=%d prefixes=%v mtu=%d rdnss=%d%v slla=%x dnssl=%d%q route=%s",
		[]byte(r.Addr.MAC), r.Addr.IP, r.ManagedFlag, r.OtherCondigFlag, r.Preference, r.CurHopLimit, int64(r.DefaultLifetime/time.Second),
		r.ReacheableTime, uint32(r.RetransTimer), pfx, uint32(r.Options.MTU), int64(r.Options.RDNSS.Lifetime/time.Second), dns, []byte(r.Options.SourceLLA.MAC),
		int64(r.Options.DNSSearchList.Lifetime/time.Second), r.Options.DNSSearchList.DomainNames, route)
}

func netipOf(ip []byte) netip.Addr {
	a, _ := netip.AddrFromSlice(ip)
	return a
}

func routerViewRef(f *refdec.Frame) string {
	nd := f.ND
	var pfx []string
	for _, p := range nd.Prefixes {
		pfx = append(pfx, fmt.Sprintf("%s/%d on=%v auto=%v valid=%d pref=%d", p.Prefix.Addr(), p.Prefix.Bits(), p.OnLink, p.Autonomous, p.Valid, p.Preferred))
	}
	var dns []string
	for _, s := range nd.RDNSS {
		dns = append(dns, s.String())
	}
	mac := f.Src[:]
	var slla []byte
	if nd.SourceLLA != nil {
		mac = nd.SourceLLA[:]
		slla = nd.SourceLLA[:]
	}
	route := ""
	if nd.HasRoute {
		route = fmt.Sprintf("%s/%d prf=%d life=%d", nd.RoutePrefix.Addr(), nd.RoutePrefix.Bits(), nd.RoutePrf, nd.RouteLifetime)
	}
	return fmt.Sprintf("mac=%x ip=%s M=%v O=%v prf=%d hop=%d life=%d reach=%d retrans=%d prefixes=%v mtu=%d rdnss=%d%v slla=%x dnssl=%d%q route=%s",
		mac, f.IP6.Src, nd.Managed, nd.Other, nd.Prf, nd.CurHopLimit, nd.RouterLifetime, nd.Reachable, nd.Retrans, pfx, nd.MTU, nd.RDNSSLifetime, dns, slla,
		nd.DNSSLLifetime, nd.DNSSL, route)
}

func runNDSpoof(e *exec) {
	w := e.w
	u := w.U
	targetMAC := func(m int) fb.MAC { return u.MACs[world.MC1+m%4] }
	targetAddr := func(m, form int) packet.Addr {
		a := packet.Addr{MAC: world.HW(targetMAC(m))}
		switch form {
		case 0:
			a.IP = u.IP6(world.MC1+m%4, 0)
		case 2:
			a.IP = u.IP6(world.MC1+m%4, 2)
		case 3:
			a.IP = u.IP4[world.FirstClientIP4+m%3]
		}
		return a
	}
	// RAs per router, as the reference decoder reads them (appended by the RA actor)
	rasSent := map[netip.Addr][]string{}
	checkRouter := func(rip netip.Addr, mustExist bool) {
		got := w.ICMP6.FindRouter(rip)
		if got.Addr.IP.IsValid() {
			view := routerViewLib(got)
			found := false
			for _, v := range rasSent[rip] {
				if v == view {
					found = true
				}
			}
			if !found {
				key := "learned-router-differs-from-every-advertisement"
				if len(rasSent[rip]) == 1 {
					key = "learned-router-differs-from-its-only-advertisement"
				}
				e.violate("C14.router", key, fmt.Sprintf("FindRouter(%s) = %s; advertisements so far (reference decoder): %s", rip, view, strings.Join(rasSent[rip], " || ")))
			}
			e.probe("router_checked")
		} else if mustExist && e.sc.Cfg.StallDen == 0 { // a stalled loop may not have processed it yet
			e.violate("C14.router", "first-advertisement-not-learned", fmt.Sprintf("FindRouter(%s) is empty after the first router advertisement", rip))
		}
	}
	var raSeqs []int64
	c := newConc(e, nil)
	body := func(a *actor, i int, o Op) {
		switch o.K {
		case "hunt6":
			a.call(i, o, func() (int64, error) {
				st, err := w.ICMP6.StartHunt(targetAddr(o.M, o.I))
				return int64(st), err
			})
		case "unhunt6":
			a.call(i, o, func() (int64, error) {
				st, err := w.ICMP6.StopHunt(targetAddr(o.M, o.I))
				return int64(st), err
			})
		case "ra":
			ra, rmac, rip := raOf(u, o)
			dst := netip.MustParseAddr("ff02::1")
			frame := fb.Eth(fb.MulticastMAC6(dst), rmac, 0x86dd, fb.IPv6(rip, dst, 58, 255, fb.ICMP6(rip, dst, 134, 0, ra.Body())))
			a.inject(i, "ra", 0, frame)
			raSeqs = append(raSeqs, a.in[len(a.in)-1].Seq)
			rasSent[rip] = append(rasSent[rip], routerViewRef(refdec.Decode(frame)))
			simrt.Settle()
			first := len(raSeqs) == 1
			// every router learned so far is looked at again, not only this one: what was recorded
			// must stay what was advertised while the read loop reuses its buffer for later frames
			rips := make([]netip.Addr, 0, len(rasSent))
			for x := range rasSent {
				rips = append(rips, x)
			}
			sort.Slice(rips, func(i, j int) bool { return rips[i].Less(rips[j]) })
			for _, x := range rips {
				checkRouter(x, x == rip && first)
			}
		case "ns":
			// neighbour solicitations from a host (no reaction expected for link-local targets)
			src := u.IP6(world.MC1+o.M%4, 0)
			tgt := u.RouterLLA
			if o.I == 1 {
				tgt = u.IP6(world.MC1+(o.M+1)%4, 0)
			} else if o.I == 2 {
				tgt = netip.MustParseAddr("2001:db8::77")
			}
			dst := fb.SolicitedNode(tgt)
			dmac := fb.MulticastMAC6(dst)
			if o.S == 1 {
				// a unicast solicitation (reachability probe): to the target itself, at another host's MAC
				dst, dmac = tgt, targetMAC(o.M+1)
			}
			frame := fb.Eth(dmac, targetMAC(o.M), 0x86dd, fb.IPv6(src, dst, 58, 255, fb.ICMP6(src, dst, 135, 0, fb.NS(tgt, []fb.NDOption{fb.OptSourceLLA(targetMAC(o.M))}))))
			a.inject(i, "ns", 0, frame)
		}
	}
	for _, a := range c.actors {
		a.body = body
	}
	c.start()
	c.wg.Wait()
	simrt.Sleep(int64(4 * time.Second))
	simrt.Settle()
	{
		rips := make([]netip.Addr, 0, len(rasSent))
		for x := range rasSent {
			rips = append(rips, x)
		}
		sort.Slice(rips, func(i, j int) bool { return rips[i].Less(rips[j]) })
		for _, x := range rips {
			checkRouter(x, false)
		}
	}
	closeInv, tClose := simrt.Seq(), now()
	w.ICMP6.Close()
	closeRet := simrt.Seq()
	// Forging after Close is judged as it happens, by the wire monitor: a loop that ignores Close
	// may flood the wire and the run would never reach the oracle below.
	own0 := refdec.MAC(u.MACs[world.MOwn])
	noStalls := e.sc.Cfg.StallDen == 0 // a stalled loop may be past its check when Close returns
	c.react = func(c *conc, o world.Out) {
		f := o.F
		if noStalls && f.ICMP6 != nil && f.ICMP6.Type == 136 && f.ND != nil && f.ND.TargetLLA != nil && *f.ND.TargetLLA == own0 && o.Seq > closeRet && time.Duration(o.Time) > tClose {
			e.violate("C14.close", "forged-na-after-close", fmt.Sprintf("forged NA to %s at %v after Close returned at %v", f.Dst, time.Duration(o.Time), tClose))
			b, _ := json.Marshal(e.finish())
			simrt.Result(b)
		}
	}
	if e.sc.Seed%2 == 0 {
		// a caller that hunts after Close gets nothing started, whatever arrives afterwards
		simrt.Sleep(int64(time.Second))
		w.ICMP6.StartHunt(targetAddr(0, 0))
		w.ICMP6.StartHunt(targetAddr(1, 1))
		ra, rmac, rip := raOf(u, Op{N: 1, P: 1})
		dst := netip.MustParseAddr("ff02::1")
		simrt.NetInject(0, fb.Eth(fb.MulticastMAC6(dst), rmac, 0x86dd, fb.IPv6(rip, dst, 58, 255, fb.ICMP6(rip, dst, 134, 0, ra.Body()))))
		e.probe("starthunt_after_close")
	}
	simrt.Sleep(int64(8 * time.Second))
	simrt.Settle()
	leaked := libraryTasksExcept(sessionSites)
	c.stopMonitor()
	_ = closeInv

	stalls := e.sc.Cfg.StallDen > 0
	calls := c.calls()
	own := refdec.MAC(u.MACs[world.MOwn])
	firstRA := int64(1 << 62)
	if len(raSeqs) > 0 {
		firstRA = raSeqs[0]
	}
	routers := map[netip.Addr]bool{u.RouterLLA: true, u.IP6(world.MC5, 0): true}

	type naFrame struct {
		seq    int64
		t      time.Duration
		dst    refdec.MAC
		target netip.Addr
	}
	var forged []naFrame
	for _, o := range c.out {
		f := o.F
		if f.ICMP6 == nil || f.ICMP6.Type != 136 || f.ND == nil {
			continue
		}
		if f.ND.TargetLLA == nil || *f.ND.TargetLLA != own || !routers[f.ND.Target] {
			e.violate("C14.unexpected", "unclassified-neighbour-advertisement", fmt.Sprintf("frame seq=%d: %s", o.Seq, f.Describe()))
			continue
		}
		forged = append(forged, naFrame{seq: o.Seq, t: time.Duration(o.Time), dst: f.Dst, target: f.ND.Target})
		e.probe("forged_na")
		if !f.ND.Override {
			e.violate("C14.forged", "override-flag-clear", fmt.Sprintf("forged NA seq=%d without the override flag: %s", o.Seq, f.Describe()))
		}
		if f.IP6.HopLimit != 255 {
			e.violate("C14.forged", "hop-limit-not-255", fmt.Sprintf("forged NA seq=%d with hop limit %d: %s", o.Seq, f.IP6.HopLimit, f.Describe()))
		}
		if o.Seq < firstRA {
			e.violate("C14.forged", "before-any-router-was-learned", fmt.Sprintf("forged NA seq=%d before the first router advertisement (seq=%d): %s", o.Seq, firstRA, f.Describe()))
		}
	}
	// per MAC: confinement and "no forged NA after StopHunt / Close"
	macs := map[refdec.MAC]bool{}
	for _, f := range forged {
		macs[f.dst] = true
	}
	for m := 0; m < 4; m++ {
		macs[refdec.MAC(targetMAC(m))] = true
	}
	var ml []refdec.MAC
	for m := range macs {
		ml = append(ml, m)
	}
	sort.Slice(ml, func(i, j int) bool { return string(ml[i][:]) < string(ml[j][:]) })
	for _, mac := range ml {
		type ev struct {
			seq  int64
			t    time.Duration
			kind string
			rec  *callRec
		}
		var evs []ev
		for i := range calls {
			r := &calls[i]
			if refdec.MAC(targetMAC(r.Op.M)) != mac {
				continue
			}
			switch r.Op.K {
			case "hunt6":
				effective := r.Op.I == 0 || r.Op.I == 1 // link-local or address-less targets only
				switch {
				case r.Op.I == 3 && r.Err == "":
					e.violate("C14.api", "starthunt-accepts-ipv4", fmt.Sprintf("StartHunt with IPv4 target returned no error (stage %d)", r.Val))
				case r.Op.I != 3 && r.Err != "":
					e.violate("C14.api", "starthunt-error", fmt.Sprintf("StartHunt form %d returned %q", r.Op.I, r.Err))
				}
				if effective {
					evs = append(evs, ev{seq: r.Inv, t: r.TInv, kind: "start", rec: r})
				}
			case "unhunt6":
				if r.Op.I == 0 || r.Op.I == 1 {
					evs = append(evs, ev{seq: r.Ret, t: r.TRet, kind: "stop", rec: r})
				}
			}
		}
		for _, f := range forged {
			if f.dst == mac {
				evs = append(evs, ev{seq: f.seq, t: f.t, kind: "na"})
			}
		}
		sort.Slice(evs, func(i, j int) bool { return evs[i].seq < evs[j].seq })
		desc := func() string {
			s := ""
			for _, x := range evs {
				s += fmt.Sprintf("[%s seq=%d t=%v]", x.kind, x.seq, x.t)
			}
			if len(s) > 1200 {
				s = s[:1200] + "..."
			}
			return s
		}
		started := false
		for i, x := range evs {
			switch x.kind {
			case "start":
				started = true
			case "na":
				if !started {
					e.violate("C14.confinement", "forged-na-to-host-never-hunted", fmt.Sprintf("forged NA to %s at seq=%d t=%v, but no effective StartHunt for it was invoked before (events: %s)", mac, x.seq, x.t, desc()))
				}
			case "stop":
				// no forged NA at a strictly later virtual time unless hunted again (a loop iteration
				// already past its membership check belongs to the same instant; stalls widen that)
				if stalls {
					continue
				}
				overlapping := false
				for _, y := range evs {
					if y.rec != nil && y.rec != x.rec && y.rec.Inv < x.rec.Ret && x.rec.Inv < y.rec.Ret {
						overlapping = true
					}
				}
				if overlapping {
					continue
				}
				for _, y := range evs[i+1:] {
					if y.kind == "start" {
						break
					}
					if y.kind == "na" && y.t > x.t {
						e.violate("C14.stop", "forged-na-after-stophunt", fmt.Sprintf("StopHunt(%s) returned at %v, forged NA at %v (events: %s)", mac, x.t, y.t, desc()))
						break
					}
				}
				e.probe("stop_checked")
			}
		}
		// "StartHunt is idempotent per MAC": a StartHunt for a MAC that is already hunted changes
		// nothing. One spoof loop sends one forged NA per learned router, then sleeps at least two
		// seconds unless a router advertisement wakes it. So within one hunt (first StartHunt to the
		// next StopHunt) that saw a repeated StartHunt, two forged NAs for the same router less than
		// two seconds apart, the second after the repeated call, need a router advertisement in
		// between; otherwise a second loop (or an extra burst) was started by the repeated call.
		if !stalls {
			lastStop := time.Duration(-1 << 62)
			for i := 0; i < len(evs); i++ {
				if evs[i].kind == "stop" {
					lastStop = evs[i].t
				}
				if evs[i].kind != "start" {
					continue
				}
				// evs[i] opens a hunt; find its end and the repeated starts inside
				end := len(evs)
				var repeats []ev
				for j := i + 1; j < len(evs); j++ {
					if evs[j].kind == "stop" {
						end = j
						break
					}
					if evs[j].kind == "start" {
						repeats = append(repeats, evs[j])
					}
				}
				epoch := evs[i:end]
				first := evs[i]
				i = end - 1
				if len(repeats) == 0 {
					continue
				}
				// not judged: a hunt opened within a cycle of the previous StopHunt (the old loop may
				// not have noticed yet), calls on this MAC that overlap in time, or a hunt cut by Close
				if first.t-lastStop < 3*time.Second {
					continue
				}
				clean := true
				for _, a := range epoch {
					for _, b := range evs {
						// a StartHunt overlapping a StopHunt has no defined order; two overlapping
						// StartHunt calls hunt the MAC once in either order
						if a.rec != nil && b.rec != nil && a.rec != b.rec && a.rec.Op.K != b.rec.Op.K && a.rec.Inv < b.rec.Ret && b.rec.Inv < a.rec.Ret {
							clean = false
						}
					}
				}
				if !clean {
					continue
				}
				e.probe("idempotence_checked")
				lastNA := map[netip.Addr]naFrame{}
				for _, f := range forged {
					if f.dst != mac || f.seq < first.seq || (end < len(evs) && f.seq > evs[end].seq) || f.t > tClose {
						continue
					}
					prev, seen := lastNA[f.target]
					lastNA[f.target] = f
					if !seen || f.t-prev.t >= 2*time.Second || f.seq < repeats[0].seq {
						continue
					}
					woken := false
					for _, in := range c.inbound() {
						if in.Tag == "ra" && in.T >= prev.t-time.Millisecond && in.T <= f.t {
							woken = true
						}
					}
					if !woken {
						e.violate("C14.idempotent", "second-forged-na-within-one-cycle-after-repeated-starthunt", fmt.Sprintf("%s is hunted since %v and StartHunt was called again at %v: forged NAs for router %s at %v and %v, %v apart, with no router advertisement in between (events: %s)", mac, first.t, repeats[0].t, f.target, prev.t, f.t, f.t-prev.t, desc()))
						break
					}
				}
			}
		}
		if !stalls {
			for _, x := range evs {
				if x.kind == "na" && x.seq > closeRet && x.t > tClose {
					e.violate("C14.close", "forged-na-after-close", fmt.Sprintf("forged NA to %s at %v after Close returned at %v", mac, x.t, tClose))
				}
			}
		}
	}
	if len(leaked) > 0 && !stalls {
		e.violate("C14.close", "spoof-goroutine-alive-after-close", fmt.Sprintf("library goroutines still alive 8s after Close: %v", leaked))
	}
	e.res.FramesOut += len(c.out)
}
