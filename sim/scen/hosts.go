package scen

import (
	"fmt"
	"net/netip"
	"sort"
	"strings"
	"time"

	"github.com/irai/packet"

	"verif/sim/fb"
	"verif/sim/model"
	"verif/sim/simrt"
	"verif/sim/simtime"
	"verif/sim/world"
)

// nameExpiry is the expiry stamp a name source puts on an entry: none, or some minutes ahead. A
// refreshed expiry alone is not a name change.
func nameExpiry(code int) time.Time {
	if code%4 == 0 {
		return time.Time{}
	}
	return simtime.Now().Add(time.Duration(code%4) * 10 * time.Minute)
}

// ---- family "hosts": sequential histories for C04 / C05 / C06 (and C07, C10 on the side) ----

var deadlineSets = [][3]int{{2, 5, 61}, {1, 1, 2}, {1, 2, 3}, {2, 3, 10}, {5, 10, 30}, {1, 5, 2}, {30, 60, 1440}}

var names = []string{"", "alpha", "beta", "gamma-phone", "delta.local"}

func genHosts(prop string, seed uint64, tier string) Scenario {
	r := &rng{s: seed ^ 0x4804}
	sc := Scenario{Prop: prop, Family: "hosts", Seed: seed}
	c := &sc.Cfg
	ds := deadlineSets[r.weighted([]int{6, 5, 5, 4, 2, 2, 1})]
	if tier == "quick" && ds[2] > 100 {
		ds = deadlineSets[0]
	}
	c.ProbeMin, c.OfflineMin, c.PurgeMin = ds[0], ds[1], ds[2]
	hb := [][2]int{{24, 25}, {24, 28}, {25, 26}, {26, 28}, {27, 29}, {28, 30}}[r.n(6)]
	c.HomeBits, c.NFBits = hb[0], hb[1]
	c.HostLLA = !r.chance(1, 5)
	c.HostGUA = r.chance(1, 2)
	c.Debug = r.chance(1, 4)
	c.PreemptN = r.pick(0, 1, 4, 16)
	c.HintMax = r.pick(0, 0, 20, 200)
	c.ReuseBuf = r.chance(1, 2)
	u := world.NewUniverse(*c)
	nIP4 := len(u.IP4)

	nops := 5 + r.n(40)
	if r.chance(1, 3) {
		nops = 3 + r.n(8) // short histories are deliberately over-represented
	}
	if tier == "thorough" && r.chance(1, 4) {
		nops = 40 + r.n(60)
	}
	// weights: ip4 ip6 arp dhcpupd dhcpframe name adv other hostless-mac-entry
	wts := []int{30, 14, 14, 8, 6, 8, 18, 2, 0}
	switch prop {
	case "C05":
		wts = []int{34, 10, 18, 10, 4, 2, 20, 2, 8}
	case "C06":
		wts = []int{26, 10, 10, 12, 10, 14, 18, 0, 0}
	}
	clientMAC := func() int { return world.MC1 + r.n(3+r.n(3)) }
	anyMAC := func() int {
		switch r.n(12) {
		case 0:
			return world.MOwn
		case 1, 2:
			return world.MRouter
		case 3:
			return world.MMulticast
		}
		return clientMAC()
	}
	homeIP := func() int { return world.FirstClientIP4 + r.n(nIP4-world.FirstClientIP4) }
	anyIP4 := func() int {
		if r.chance(3, 4) {
			return homeIP()
		}
		return r.n(nIP4)
	}
	for len(sc.Ops) < nops {
		switch r.weighted(wts) {
		case 0:
			sc.Ops = append(sc.Ops, Op{K: "ip4", M: anyMAC(), I: anyIP4(), P: r.n(3)})
		case 1:
			sc.Ops = append(sc.Ops, Op{K: "ip6", M: anyMAC(), S: r.pick(-1, -1, -1, world.MC1, world.MRouter), I: r.weighted([]int{3, 3, 3, 3, 2, 2, 2}), P: r.n(2)})
		case 2:
			sha := -1
			if r.chance(1, 6) {
				sha = clientMAC()
			}
			sc.Ops = append(sc.Ops, Op{K: "arp", M: anyMAC(), S: sha, I: anyIP4(), T: anyIP4(), O: 1 + r.n(2)})
		case 3:
			ip := homeIP()
			if r.chance(1, 8) {
				ip = r.n(nIP4)
			}
			sc.Ops = append(sc.Ops, Op{K: "dhcpupd", M: clientMAC(), I: ip, N: r.n(len(names)), S: r.n(4)})
			if r.chance(2, 3) {
				sc.Ops = append(sc.Ops, Op{K: "dhcpframe", M: sc.Ops[len(sc.Ops)-1].M})
			}
		case 4:
			sc.Ops = append(sc.Ops, Op{K: "dhcpframe", M: clientMAC()})
		case 5:
			o := Op{K: "name", P: 1 + r.n(4), N: 1 + r.n(len(names)-1), S: r.n(4)}
			if r.chance(3, 4) {
				o.I = homeIP()
			} else {
				o.M, o.I = clientMAC(), -1-r.n(4)
			}
			sc.Ops = append(sc.Ops, o)
		case 6:
			sc.Ops = append(sc.Ops, Op{K: "adv", D: r.weighted([]int{6, 8, 5, 5, 6, 6, 4, 3, 4, 4, 1, 1})})
		case 7:
			sc.Ops = append(sc.Ops, Op{K: "other", M: anyMAC(), P: r.n(3)})
		case 8: // Capture / Release / SetDHCPv4IPOffer create MAC entries without hosts (C05 only)
			mm := clientMAC()
			if r.chance(1, 4) { // the control API is also used with the interface's own MAC and the router's
				mm = r.pick(world.MOwn, world.MRouter)
			}
			sc.Ops = append(sc.Ops, Op{K: "macop", M: mm, P: r.n(3), I: homeIP()})
		}
	}
	return sc
}

// advDuration maps an "adv" code to a duration relative to the run's deadlines.
func advDuration(c world.Config, code int) time.Duration {
	off := time.Duration(c.OfflineMin) * time.Minute
	pur := time.Duration(c.PurgeMin) * time.Minute
	switch code {
	case 0:
		return 20 * time.Second
	case 1:
		return time.Minute
	case 2:
		return 2 * time.Minute
	case 3:
		return off - time.Minute + 30*time.Second
	case 4:
		return off
	case 5:
		return off + time.Minute
	case 6:
		return off + 2*time.Minute
	case 7:
		if pur > off {
			return pur - off
		}
		return time.Minute
	case 8:
		return pur
	case 9:
		return pur + time.Minute
	case 10:
		return pur + off + 3*time.Minute
	default:
		return 25 * time.Hour
	}
}

type hostsRun struct {
	*exec
	m        *model.Hosts
	hostless bool // Capture/Release/SetDHCPv4IPOffer were used: MAC entries may exist without hosts
}

func mm(m fb.MAC) model.MAC { return model.MAC(m) }

func (h *hostsRun) now() time.Duration { return time.Duration(simrt.Now()) }

// frame builders for the ops
func (h *hostsRun) ip4Frame(o Op) []byte {
	u := h.w.U
	src := u.IP4[o.I]
	dst := u.RouterIP
	var l4 []byte
	proto := byte(17)
	switch o.P {
	case 0:
		l4 = fb.UDP(40000, 9999, []byte("hello"))
	case 1:
		l4 = fb.TCP(40000, 80, []byte("GET"))
		proto = 6
	default:
		l4 = fb.Echo4(8, 77, 1, []byte("ping"))
		proto = 1
	}
	return fb.Eth(u.MACs[world.MRouter], u.MACs[o.M], 0x0800, fb.IPv4(src, dst, proto, 64, 1, l4))
}

func (h *hostsRun) ip6Addr(o Op) netip.Addr {
	m := o.M
	if o.S >= 0 {
		m = o.S // address numbered after another MAC (re-binding across MACs)
	}
	return h.w.U.IP6(m, o.I)
}

func (h *hostsRun) ip6Frame(o Op) []byte {
	u := h.w.U
	src := h.ip6Addr(o)
	dst := netip.MustParseAddr("ff02::1")
	var l4 []byte
	nh := byte(17)
	if o.P == 0 {
		l4 = fb.UDP(40000, 9999, []byte("hello6"))
		// udp checksum is mandatory over IPv6
		b := l4
		s16, d16 := src.As16(), dst.As16()
		ps := append(append([]byte{}, s16[:]...), d16[:]...)
		ps = append(ps, 0, 0, byte(len(b)>>8), byte(len(b)), 0, 0, 0, 17)
		ck := fb.Checksum(append(ps, b...))
		b[6], b[7] = byte(ck>>8), byte(ck)
	} else {
		l4 = fb.Echo6(src, dst, 128, 5, 1, []byte("ping6"))
		nh = 58
	}
	return fb.Eth(fb.MulticastMAC6(dst), u.MACs[o.M], 0x86dd, fb.IPv6(src, dst, nh, 64, l4))
}

func (h *hostsRun) arpFrame(o Op) ([]byte, fb.MAC) {
	u := h.w.U
	sha := u.MACs[o.M]
	if o.S >= 0 {
		sha = u.MACs[o.S]
	}
	dst := fb.Broadcast
	tha := fb.MAC{}
	if o.O == 2 {
		dst = u.MACs[world.MRouter]
		tha = u.MACs[world.MRouter]
	}
	return fb.Eth(dst, u.MACs[o.M], 0x0806, fb.ARP(uint16(o.O), sha, u.IP4[o.I], tha, u.IP4[o.T])), sha
}

func dhcpDiscoverFrame(u *world.Universe, mac fb.MAC, xid byte) []byte {
	d := fb.DHCP{Op: 1, XID: [4]byte{1, 2, 3, xid}, CHAddr: mac, Options: []fb.DHCPOpt{{Code: 53, Data: []byte{1}}}}
	udp := fb.UDP(68, 67, d.Bytes())
	ip := fb.IPv4(netip.MustParseAddr("0.0.0.0"), netip.MustParseAddr("255.255.255.255"), 17, 64, 2, udp)
	return fb.Eth(fb.Broadcast, mac, 0x0800, ip)
}

func runHosts(e *exec) {
	w := e.w
	u := w.U
	h := &hostsRun{exec: e}
	h.m = model.NewHosts(u.Home, mm(u.MACs[world.MOwn]), mm(u.MACs[world.MRouter]), u.HostIP, u.RouterIP,
		time.Duration(w.Cfg.OfflineMin)*time.Minute, time.Duration(w.Cfg.PurgeMin)*time.Minute, time.Duration(w.Start))
	w.StartLoop()
	simrt.Settle()
	h.checkNotifs(nil, "start")
	h.checkState("start")

	for i, o := range e.sc.Ops {
		e.step = i
		e.res.OpsRun++
		e.res.OpKinds[o.K]++
		var exp []model.Notif
		switch o.K {
		case "ip4":
			src, ip := mm(u.MACs[o.M]), u.IP4[o.I]
			if h.m.FrameCreatesHost(src, ip) {
				h.reach(src, ip)
				x, tr := h.m.Seen(src, ip, h.now())
				exp = h.m.Notify(x, tr)
			}
			w.Inject(h.ip4Frame(o))
		case "ip6":
			src, ip := mm(u.MACs[o.M]), h.ip6Addr(o)
			if h.m.FrameCreatesHost(src, ip) {
				h.reach(src, ip)
				x, tr := h.m.Seen(src, ip, h.now())
				exp = h.m.Notify(x, tr)
			}
			w.Inject(h.ip6Frame(o))
		case "arp":
			f, sha := h.arpFrame(o)
			src, ip := mm(u.MACs[o.M]), u.IP4[o.I]
			if h.m.FrameCreatesHost(src, ip) && ip.Is4() {
				if sha[0]&1 == 1 {
					continue // unspecified: multicast sender hardware address
				}
				h.reach(mm(sha), ip)
				x, tr := h.m.Seen(mm(sha), ip, h.now())
				exp = h.m.Notify(x, tr)
			}
			w.Inject(f)
		case "dhcpupd":
			mac, ip := u.MACs[o.M], u.IP4[o.I]
			err := w.S.DHCPv4Update(world.HW(mac), ip, packet.NameEntry{Type: "dhcp4", Name: names[o.N], Expire: nameExpiry(o.S)})
			if !ip.IsValid() || ip.IsUnspecified() {
				if err == nil {
					e.violate("C04.api", "dhcpupdate-accepts-unspecified", fmt.Sprintf("DHCPv4Update(%s, %s) returned nil", mm(mac), ip))
				}
				break
			}
			h.reach(mm(mac), ip)
			x, _ := h.m.Seen(mm(mac), ip, h.now())
			h.m.UpdateName(x, model.NDHCP, names[o.N])
			h.m.ByMAC[mm(mac)].Offer = ip
			if len(h.m.ByMAC[mm(mac)].Hosts) > 1 {
				e.probe("dhcpupd_ip_change")
			}
		case "dhcpframe":
			mac := mm(u.MACs[o.M])
			if me := h.m.ByMAC[mac]; me != nil && me.Offer.IsValid() {
				ip := me.Offer
				x := h.m.ByIP[ip]
				if x != nil && x.MAC != mac {
					e.probe("skip_unspecified_offer_rebound")
					continue // unspecified: the offered address now belongs to another MAC
				}
				if x != nil {
					exp = h.m.Notify(x, true)
					e.probe("dhcp_frame_notify")
				}
			}
			w.Inject(dhcpDiscoverFrame(u, u.MACs[o.M], byte(i)))
		case "name":
			var ip netip.Addr
			if o.I >= 0 {
				ip = u.IP4[o.I]
			} else {
				ip = u.IP6(o.M, -1-o.I)
			}
			x := h.m.ByIP[ip]
			host := w.S.FindIP(ip)
			if (x == nil) != (host == nil) {
				h.checkState("name-lookup")
				continue
			}
			if x == nil {
				continue
			}
			ne := packet.NameEntry{Type: "t", Name: names[o.N], Expire: nameExpiry(o.S)}
			switch o.P {
			case 1:
				host.UpdateMDNSName(ne)
				h.m.UpdateName(x, model.NMDNS, names[o.N])
			case 2:
				host.UpdateSSDPName(ne)
				h.m.UpdateName(x, model.NSSDP, names[o.N])
			case 3:
				host.UpdateLLMNRName(ne)
				h.m.UpdateName(x, model.NLLMNR, names[o.N])
			default:
				host.UpdateNBNSName(ne)
				h.m.UpdateName(x, model.NNBNS, names[o.N])
			}
			e.probe("name_update")
		case "adv":
			d := advDuration(w.Cfg, o.D)
			target := h.now() + d
			w.Advance(d, func() {
				n, ticks := h.m.AdvanceTo(h.now())
				e.res.Extra["purge_ticks"] += int64(ticks)
				for _, x := range n {
					_ = x
					e.probe("aged_offline")
				}
				h.checkNotifs(n, "advance")
				h.checkState("advance")
			})
			_ = target
			continue
		case "macop":
			mac := world.HW(u.MACs[o.M])
			switch o.P {
			case 0:
				w.S.Capture(mac)
			case 1:
				w.S.Release(mac)
			default:
				w.S.SetDHCPv4IPOffer(mac, u.IP4[o.I], packet.NameEntry{Type: "dhcp4", Name: "o"})
			}
			h.hostless = true
			e.probe("hostless_mac_entry_op")
		case "other":
			var f []byte
			switch o.P {
			case 0:
				f = fb.Eth(fb.Broadcast, u.MACs[o.M], 0x0026, make([]byte, 46)) // 802.3 length field
			case 1:
				f = fb.Eth(fb.Broadcast, u.MACs[o.M], 0x88cc, make([]byte, 46)) // LLDP
			default:
				f = fb.Eth(fb.Broadcast, u.MACs[o.M], 0x9999, make([]byte, 46))
			}
			w.Inject(f)
		}
		simrt.Settle()
		h.checkNotifs(exp, o.K)
		h.checkState(o.K)
		if e.fatal {
			break
		}
	}
	e.res.FramesIn = w.Frames
}

// reach records which rare branches of the rules a history exercised.
func (h *hostsRun) reach(mac model.MAC, ip netip.Addr) {
	x := h.m.ByIP[ip]
	switch {
	case x == nil:
		h.probe("new_host")
		if me := h.m.ByMAC[mac]; me != nil && ip.Is4() {
			for _, y := range me.Hosts {
				if y.IP.Is4() && y.Online {
					h.probe("ip4_change_sibling_offline")
				}
			}
		}
	case x.MAC != mac:
		h.probe("rebind_other_mac")
		if len(h.m.ByMAC[x.MAC].Hosts) == 1 {
			h.probe("rebind_deletes_mac_entry")
		}
	case !x.Online:
		h.probe("return_from_offline")
	default:
		h.probe("repeat_traffic")
	}
}

func notifOf(n packet.Notification) model.Notif {
	var m model.MAC
	copy(m[:], n.Addr.MAC)
	r := model.Notif{MAC: m, IP: n.Addr.IP, Online: n.Online, Router: n.IsRouter}
	r.Names[model.NDHCP] = n.DHCP4Name.Name
	r.Names[model.NMDNS] = n.MDNSName.Name
	r.Names[model.NSSDP] = n.SSDPName.Name
	r.Names[model.NLLMNR] = n.LLMNRName.Name
	r.Names[model.NNBNS] = n.NBNSName.Name
	return r
}

// checkNotifs drains Session.C and compares with the expected notifications of this step
// (multiset equality, plus: a superseded IPv4 address's offline precedes the new one's online).
func (h *hostsRun) checkNotifs(exp []model.Notif, what string) {
	if h.hostless { // outside the C04/C06 model (C05-only histories): just drain
		h.w.Drain()
		return
	}
	got := h.w.Drain()
	var g []model.Notif
	for _, n := range got {
		g = append(g, notifOf(n))
	}
	h.tr("%s: notifications %v", what, g)
	key := func(n model.Notif) string { return n.String() }
	cnt := map[string]int{}
	for _, n := range exp {
		cnt[key(n)]++
	}
	for _, n := range g {
		cnt[key(n)]--
	}
	var missing, extra []string
	for k, c := range cnt {
		for ; c > 0; c-- {
			missing = append(missing, k)
		}
		for ; c < 0; c++ {
			extra = append(extra, k)
		}
	}
	// An owed notification of an offline address (host offline and pending in the model: a
	// superseded IPv4 address, or an address of either family that learned a name while offline)
	// may be delivered with any notification of the same MAC: the statement fixes that it is
	// delivered exactly once (and, for a superseded IPv4 address, before the new address's online
	// notification), not at which Notify. Accept it and settle the debt.
	if len(extra) > 0 && len(g) > len(extra) {
		var rest []string
		for _, k := range extra {
			settled := false
			for _, x := range h.m.Sorted() {
				if !x.Online && x.Pending && h.m.NotifKey(x) == k {
					for _, n := range g {
						if n.MAC == x.MAC && n.IP != x.IP {
							settled = true
						}
					}
					if settled {
						x.Pending = false
						h.probe("owed_offline_settled_late")
						break
					}
				}
			}
			if !settled {
				rest = append(rest, k)
			}
		}
		extra = rest
	}
	sort.Strings(missing)
	sort.Strings(extra)
	if len(missing) > 0 || len(extra) > 0 {
		k := what
		if len(missing) > 0 && len(extra) > 0 {
			k += ":mismatch"
		} else if len(missing) > 0 {
			k += ":missing"
		} else {
			k += ":unexpected"
		}
		h.violate("C06.notify", k, fmt.Sprintf("after %s: missing=%v unexpected=%v (expected %v, got %v)", what, missing, extra, exp, g))
		return
	}
	// order: offline of a MAC's other IPv4 address before the online of the new one
	for i, n := range g {
		if n.Online && n.IP.Is4() {
			for _, later := range g[i+1:] {
				if !later.Online && later.MAC == n.MAC && later.IP.Is4() && later.IP != n.IP {
					h.violate("C06.order", what, fmt.Sprintf("offline %v delivered after online %v", later, n))
				}
			}
		}
	}
	if len(g) > 0 {
		h.probe("notifications")
	}
}

func hostKey(mac []byte, ip netip.Addr, online bool) string {
	var m model.MAC
	copy(m[:], mac)
	return fmt.Sprintf("%s %s %v", m, ip, online)
}

// checkState compares the API-visible tracking state with the model (C04) and the
// structural invariants of the tables (C05).
func (h *hostsRun) checkState(what string) {
	w := h.w
	if h.hostless {
		apiUserCheckTables(h.exec, "C05.tables", what)
		if h.step%5 == 0 {
			printTable(h.exec)
		}
		return
	}
	want := h.m.Snapshot()
	// GetHosts
	var got []string
	for _, x := range w.S.GetHosts() {
		x.MACEntry.Row.RLock()
		got = append(got, hostKey(x.Addr.MAC, x.Addr.IP, x.Online))
		x.MACEntry.Row.RUnlock()
	}
	sort.Strings(got)
	ws := append([]string(nil), want...)
	sort.Strings(ws)
	if strings.Join(got, ";") != strings.Join(ws, ";") {
		h.violate("C04.state", what, fmt.Sprintf("after %s: GetHosts=%v model=%v", what, got, ws))
		return
	}
	// FindIP over the model and a few absent addresses
	probeIPs := append([]netip.Addr{}, w.U.IP4...)
	for m := 0; m < world.NumMAC; m++ {
		for i := 0; i < 4; i++ {
			probeIPs = append(probeIPs, w.U.IP6(m, i))
		}
	}
	for _, ip := range probeIPs {
		x := h.m.ByIP[ip]
		host := w.S.FindIP(ip)
		if (x == nil) != (host == nil) {
			h.violate("C04.findip", what, fmt.Sprintf("FindIP(%s) present=%v, model present=%v", ip, host != nil, x != nil))
			return
		}
		if host != nil {
			host.MACEntry.Row.RLock()
			k := hostKey(host.Addr.MAC, host.Addr.IP, host.Online)
			host.MACEntry.Row.RUnlock()
			if k != fmt.Sprintf("%s %s %v", x.MAC, x.IP, x.Online) {
				h.violate("C04.findip", what, fmt.Sprintf("FindIP(%s)=%s model=%s %s %v", ip, k, x.MAC, x.IP, x.Online))
				return
			}
		}
	}
	// per-MAC views
	for i := 0; i < world.NumMAC; i++ {
		mac := w.U.MACs[i]
		var wantIPs []string
		if me := h.m.ByMAC[mm(mac)]; me != nil {
			for _, x := range me.Hosts {
				wantIPs = append(wantIPs, x.IP.String())
			}
		}
		sort.Strings(wantIPs)
		for name, l := range map[string][]packet.Addr{"IPAddrs": w.S.IPAddrs(world.HW(mac)), "FindByMAC": w.S.FindByMAC(world.HW(mac))} {
			var gotIPs []string
			for _, a := range l {
				gotIPs = append(gotIPs, a.IP.String())
			}
			sort.Strings(gotIPs)
			if strings.Join(gotIPs, ",") != strings.Join(wantIPs, ",") {
				h.violate("C04.bymac", what, fmt.Sprintf("%s(%s)=%v model=%v", name, mm(mac), gotIPs, wantIPs))
				return
			}
		}
		if h.hostless { // the C04 model does not cover host-less MAC entries (and what survives their last host)
			continue
		}
		if (w.S.FindMACEntry(world.HW(mac)) != nil) != (h.m.ByMAC[mm(mac)] != nil) {
			h.violate("C04.macentry", what, fmt.Sprintf("FindMACEntry(%s) present=%v model=%v", mm(mac), w.S.FindMACEntry(world.HW(mac)) != nil, h.m.ByMAC[mm(mac)] != nil))
			return
		}
	}
	apiUserCheckTables(h.exec, "C05.tables", what)
	if h.step%5 == 0 {
		printTable(h.exec) // PrintTable asserts part of the invariant itself and panics if it fails
	}
	h.addState(simrt.HashBytes([]byte(strings.Join(ws, ";"))))
}

// checkTables is the structural invariant of C05, evaluated on the exported tables under
// the session read lock.
func apiUserCheckTables(e *exec, oracle, what string) {
	s := e.w.S
	s.VerifRLock()
	defer s.VerifRUnlock()
	bad := func(key, format string, a ...interface{}) {
		e.violate(oracle, key, fmt.Sprintf("after %s: ", what)+fmt.Sprintf(format, a...))
	}
	seenMAC := map[string]bool{}
	owner := map[*packet.Host]*packet.MACEntry{}
	for _, me := range s.MACTable.Table {
		k := string(me.MAC)
		if seenMAC[k] {
			bad("dup-mac", "MAC %s appears twice in MACTable", me.MAC)
		}
		seenMAC[k] = true
		cnt := map[*packet.Host]int{}
		me.Row.RLock()
		for _, x := range me.HostList {
			cnt[x]++
			if cnt[x] > 1 {
				bad("host-listed-twice", "host %s listed twice under %s", x.Addr.IP, me.MAC)
			}
			if o := owner[x]; o != nil && o != me {
				bad("host-two-macs", "host %s listed under %s and %s", x.Addr.IP, o.MAC, me.MAC)
			}
			owner[x] = me
			if s.HostTable.Table[x.Addr.IP] != x {
				bad("listed-not-indexed", "host %s listed under %s is not the one indexed under its IP", x.Addr.IP, me.MAC)
			}
			if x.Online && !me.Online {
				bad("online-host-offline-mac", "host %s online but MAC entry %s offline", x.Addr.IP, me.MAC)
			}
		}
		me.Row.RUnlock()
	}
	for ip, x := range s.HostTable.Table {
		if x.Addr.IP != ip {
			bad("wrong-index", "host indexed under %s has address %s", ip, x.Addr.IP)
		}
		me := x.MACEntry
		if me == nil {
			bad("nil-macentry", "host %s has no MAC entry", ip)
			continue
		}
		found := false
		for _, t := range s.MACTable.Table {
			if t == me {
				found = true
			}
		}
		if !found {
			bad("macentry-not-in-table", "host %s points to MAC entry %s which is not in MACTable", ip, me.MAC)
		}
		if string(me.MAC) != string(x.Addr.MAC) {
			bad("mac-mismatch", "host %s has MAC %s but its entry is %s", ip, x.Addr.MAC, me.MAC)
		}
		if owner[x] != me {
			bad("not-listed", "host %s is not listed under its MAC entry %s", ip, me.MAC)
		}
	}
	e.probe("table_checks")
}

// printTable calls PrintTable (which self-checks and may panic) at a sample of points.
func printTable(e *exec) {
	e.w.S.PrintTable()
	e.probe("print_table")
}
