package scen

import (
	"fmt"
	"net/netip"
	"sort"
	"time"

	"github.com/anishathalye/porcupine"
	"github.com/irai/packet"

	"verif/sim/fb"
	"verif/sim/simrt"
	"verif/sim/simsync"
	"verif/sim/simtime"
	"verif/sim/world"
)

// ---- family "conc9": C09, the supported concurrency pattern under seeded interleavings ----

const (
	aFindIP = iota
	aGetHosts
	aIPAddrs
	aFindByMAC
	aFindMACEntry
	aPrintTable
	aCaptureCtl
	aReleaseCtl
	aIsCapturedCtl
	aSetOfferCtl
	aGetOfferCtl
	aARPStart
	aARPStop
	aARPIsHunting
	aND6Start
	aND6Stop
	aDHCPTicker
	aARPPrint
	aND6Print
	aDHCPPrint
	aFindRouter
	aCaptureClient
	aReleaseClient
	aCheckTables
	numAPI9
)

var api9Names = []string{"FindIP", "GetHosts", "IPAddrs", "FindByMAC", "FindMACEntry", "PrintTable", "Capture(ctl)", "Release(ctl)",
	"IsCaptured(ctl)", "SetDHCPv4IPOffer(ctl)", "DHCPv4IPOffer(ctl)", "arp.StartHunt", "arp.StopHunt", "arp.IsHunting", "icmp6.StartHunt",
	"icmp6.StopHunt", "dhcp.MinuteTicker", "arp.PrintTable", "icmp6.PrintTable", "dhcp.PrintTable", "icmp6.FindRouter", "Capture(client)",
	"Release(client)", "settle+table-invariants"}

func genConc9(prop string, seed uint64, tier string) Scenario {
	r := &rng{s: seed ^ 0xc09}
	sc := Scenario{Prop: prop, Family: "conc9", Seed: seed}
	c := &sc.Cfg
	ds := deadlineSets[r.weighted([]int{3, 4, 3, 2})]
	c.ProbeMin, c.OfflineMin, c.PurgeMin = ds[0], ds[1], ds[2]
	hb := [][2]int{{24, 25}, {26, 28}, {28, 30}}[r.n(3)]
	c.HomeBits, c.NFBits = hb[0], hb[1]
	c.HostLLA = true
	c.HostGUA = r.chance(1, 2)
	c.ARP, c.ICMP6, c.DHCP, c.DNS = true, true, true, true
	c.DHCPMode = 1 + r.n(3)
	c.LeaseFile = r.chance(1, 2)
	c.Debug = r.chance(1, 3)
	c.Concurrent = true
	c.PreemptN = r.pick(1, 1, 1, 4, 16)
	c.HintMax = r.pick(3, 10, 50, 200)
	if r.chance(1, 3) {
		c.StallDen = r.pick(32, 128, 512)
	}
	c.ReuseBuf = r.chance(1, 2)
	napi := 2 + r.n(5)
	nnodes := 1 + r.n(3)
	nops := 10 + r.n(50)
	if r.chance(1, 4) {
		nops = 4 + r.n(8)
	}
	if tier == "thorough" && r.chance(1, 3) {
		nops = 60 + r.n(80)
	}
	for i := 0; i < nops; i++ {
		if r.chance(3, 5) {
			// X=1: wait for the next minute boundary first, so that the call meets the purge tick
			sc.Ops = append(sc.Ops, Op{K: "api", T: r.n(napi), P: r.n(numAPI9), M: r.n(4), I: r.n(16), D: r.weighted([]int{8, 4, 4, 3, 2, 2, 1, 1, 1, 1}), X: r.pick(0, 0, 0, 1)})
		} else {
			// X=1: the frame arrives at a minute boundary, together with the purge tick
			sc.Ops = append(sc.Ops, Op{K: "frame", T: 20 + r.n(nnodes), P: r.weighted([]int{3, 3, 3, 2, 5, 3, 3, 2, 2, 2, 2}), M: r.n(4), I: r.n(16), N: r.n(64), D: r.weighted([]int{6, 4, 4, 3, 3, 2, 2, 1, 1, 2}), X: r.pick(0, 0, 0, 1)})
		}
	}
	// Two-phase runs: every node falls silent for longer than the purge deadline in the middle of
	// its traffic and comes back with a burst at a purge tick, so that hosts and MAC entries are
	// aged out and deleted while new frames of the same MACs arrive.
	twoPhase := c.PurgeMin <= 3 && r.chance(1, 3)
	if twoPhase {
		var out []Op
		seen := map[int]int{}
		count := map[int]int{}
		for _, o := range sc.Ops {
			if o.K == "frame" {
				count[o.T]++
			}
		}
		for _, o := range sc.Ops {
			if o.K == "frame" {
				seen[o.T]++
				if seen[o.T] == count[o.T]/2+1 {
					out = append(out, Op{K: "pause", T: o.T, N: c.PurgeMin}, Op{K: "frame", T: o.T, P: 9, M: r.n(4), I: r.n(16), X: 1})
				}
			}
			out = append(out, o)
		}
		sc.Ops = out
	}
	// faults on the wire
	nf := r.n(4)
	for i := 0; i < nf; i++ {
		sc.Ops = append(sc.Ops, Op{K: "fault", T: 40, P: r.n(3), N: 1 + r.n(3), D: r.n(10)})
	}
	// the closer: D selects when (possibly in the middle of the traffic)
	closeAfter := r.weighted([]int{3, 2, 2, 2, 2, 1, 1, 1, 1})
	if twoPhase {
		closeAfter = 7 + r.n(2)
	}
	sc.Ops = append(sc.Ops, Op{K: "close", T: 50, D: r.n(10), X: closeAfter, P: r.n(2), I: r.pick(0, 0, 1), N: r.n(2)})
	return sc
}

type ctlOp struct {
	kind string // capture release iscaptured setoffer getoffer
	mac  int
	arg  string
}

type ctlOut struct {
	b bool
	s string
}

type ctlState struct {
	captured bool
	offer    string
}

func runConc9(e *exec) {
	w := e.w
	u := w.U
	var mu simsync.Mutex // guards e.res (violations are rare; probes are kept per actor)
	e.lock = func() { mu.Lock() }
	e.unlock = func() { mu.Unlock() }
	closing := make(chan struct{})
	isClosing := func() bool {
		select {
		case <-closing:
			return true
		default:
			return false
		}
	}
	clientMAC := func(m int) fb.MAC { return u.MACs[world.MC1+m%4] }
	clientIP := func(m int) netip.Addr { return u.IP4[world.FirstClientIP4+m%(len(u.IP4)-world.FirstClientIP4)] }
	ctlMAC := func(m int) fb.MAC { return u.MACs[world.MCtl1+m%2] }
	anyIP := func(i int) netip.Addr {
		if i%4 == 3 {
			return u.IP6(world.MC1+i%4, i%3)
		}
		return u.IP4[i%len(u.IP4)]
	}
	probes := map[int]map[string]int{}
	c := newConc(e, nil)
	for _, a := range c.actors {
		probes[a.id] = map[string]int{}
	}
	// a reactive DHCP client lives in the wire monitor: it takes every OFFER it sees, so that
	// leases are really acknowledged (the handler then updates the session from the packet loop)
	monProbes := map[string]int{}
	c.react = func(c *conc, out world.Out) {
		d := out.F.DHCP
		if d == nil || d.Op != 2 || d.MsgType != 2 || !d.YIAddr.IsValid() || isClosing() {
			return
		}
		y := d.YIAddr.As4()
		opts := []fb.DHCPOpt{{Code: 53, Data: []byte{3}}, {Code: 50, Data: y[:]}}
		if sid, ok := d.Opt(54); ok {
			opts = append(opts, fb.DHCPOpt{Code: 54, Data: sid})
		}
		req := fb.DHCP{Op: 1, XID: d.XID, CHAddr: fb.MAC(d.CHAddr), Options: opts}
		seq := simrt.Seq()
		frame := fb.Eth(fb.Broadcast, fb.MAC(d.CHAddr), 0x0800, fb.IPv4(netip.MustParseAddr("0.0.0.0"), netip.MustParseAddr("255.255.255.255"), 17, 64, 1, fb.UDP(68, 67, req.Bytes())))
		delay := 20 * time.Millisecond
		if d.XID[2]%2 == 0 {
			delay = 0 // at once: the ACK is processed at the very instant of the DISCOVER (e.g. a purge tick)
		}
		simrt.NetInject(int64(delay), frame)
		c.monIn = append(c.monIn, inRec{Seq: seq, T: now() + delay, Tag: "select", OpIdx: -1})
		monProbes["dhcp_offer_taken"]++
	}
	var closeRec callRec
	body := func(a *actor, i int, o Op) {
		pr := probes[a.id]
		if o.K != "close" && isClosing() {
			pr["skipped_after_close"]++
			return
		}
		switch o.K {
		case "api":
			if o.X == 1 {
				simrt.Sleep(int64(time.Minute) - simrt.Now()%int64(time.Minute))
				if isClosing() {
					return
				}
			}
			api := o.P % numAPI9
			pr["api_"+api9Names[api]]++
			a.call(i, o, func() (int64, error) {
				switch api {
				case aFindIP:
					if h := w.S.FindIP(anyIP(o.I)); h != nil {
						if apiUserHostOnline(h) {
							return 1, nil
						}
					}
				case aGetHosts:
					n := int64(0)
					for _, h := range w.S.GetHosts() {
						if apiUserHostOnline(h) {
							n++
						}
					}
					return n, nil
				case aIPAddrs:
					return int64(len(w.S.IPAddrs(world.HW(clientMAC(o.M))))), nil
				case aFindByMAC:
					return int64(len(w.S.FindByMAC(world.HW(clientMAC(o.M))))), nil
				case aFindMACEntry:
					if w.S.FindMACEntry(world.HW(clientMAC(o.M))) != nil {
						return 1, nil
					}
				case aPrintTable:
					w.S.PrintTable()
				case aCaptureCtl:
					return 0, w.S.Capture(world.HW(ctlMAC(o.M)))
				case aReleaseCtl:
					return 0, w.S.Release(world.HW(ctlMAC(o.M)))
				case aIsCapturedCtl:
					if w.S.IsCaptured(world.HW(ctlMAC(o.M))) {
						return 1, nil
					}
				case aSetOfferCtl:
					w.S.SetDHCPv4IPOffer(world.HW(ctlMAC(o.M)), clientIP(o.I), packet.NameEntry{})
				case aGetOfferCtl:
					ip := w.S.DHCPv4IPOffer(world.HW(ctlMAC(o.M)))
					if ip.IsValid() {
						x := ip.As4()
						return int64(x[3]) + 1, nil
					}
				case aARPStart:
					_, err := w.ARP.StartHunt(packet.Addr{MAC: world.HW(clientMAC(o.M)), IP: clientIP(o.M)})
					return 0, err
				case aARPStop:
					_, err := w.ARP.StopHunt(packet.Addr{MAC: world.HW(clientMAC(o.M)), IP: clientIP(o.M)})
					return 0, err
				case aARPIsHunting:
					if w.ARP.IsHunting(clientIP(o.M)) {
						return 1, nil
					}
				case aND6Start:
					_, err := w.ICMP6.StartHunt(packet.Addr{MAC: world.HW(clientMAC(o.M)), IP: u.IP6(world.MC1+o.M%4, 0)})
					return 0, err
				case aND6Stop:
					_, err := w.ICMP6.StopHunt(packet.Addr{MAC: world.HW(clientMAC(o.M)), IP: u.IP6(world.MC1+o.M%4, 0)})
					return 0, err
				case aDHCPTicker:
					return 0, w.DHCP.MinuteTicker(simtime.Now())
				case aARPPrint:
					w.ARP.PrintTable()
				case aND6Print:
					w.ICMP6.PrintTable()
				case aDHCPPrint:
					w.DHCP.PrintTable()
				case aFindRouter:
					r := w.ICMP6.FindRouter(u.RouterLLA)
					if r.Addr.IP.IsValid() {
						return 1, nil
					}
				case aCaptureClient:
					return 0, w.S.Capture(world.HW(clientMAC(o.M)))
				case aReleaseClient:
					return 0, w.S.Release(world.HW(clientMAC(o.M)))
				case aCheckTables:
					apiUserCheckTables(e, "C09.tables", "quiescent point (concurrent run)") // C09: "the table invariants of C05 hold at every quiescent point"
					// (Session.DHCPv4Update is not offered here: the statement's API list does not include it;
					// it is the DHCP handler's call, made from the packet loop)
				}
				return 0, nil
			})
		case "frame":
			if o.X == 1 || o.P%11 == 9 {
				simrt.Sleep(int64(time.Minute) - simrt.Now()%int64(time.Minute))
				if isClosing() {
					return
				}
			}
			m := clientMAC(o.M)
			pr["frame"]++
			zero := netip.MustParseAddr("0.0.0.0")
			bc := netip.MustParseAddr("255.255.255.255")
			switch o.P % 11 {
			case 10:
				// a message of another DHCP server (OFFER or ACK), as seen on a shared segment: to the
				// client port or, misdirected, to the server port
				x := clientIP(o.I).As4()
				typ := byte(2 + 3*(o.N%2))
				port := uint16(68 - o.I%2)
				d := fb.DHCP{Op: 2, XID: [4]byte{9, byte(a.id), byte(len(a.in)), byte(o.M)}, CHAddr: m, YIAddr: netip.AddrFrom4(x), Options: []fb.DHCPOpt{{Code: 53, Data: []byte{typ}}, {Code: 54, Data: []byte{192, 168, 0, 1}}}}
				a.inject(i, "foreign-server", 0, fb.Eth(fb.Broadcast, u.MACs[world.MRouter], 0x0800, fb.IPv4(u.RouterIP, bc, 17, 64, 1, fb.UDP(67, port, d.Bytes()))))
			case 9:
				// a burst at the purge tick: every client from its usual and from a second address
				// (known hosts take the read-locked fast path, new ones the write lock), while purge
				// is marking silent hosts offline
				for k := 0; k < 8; k++ {
					cm := clientMAC(k)
					a.inject(i, "ip4", 0, fb.Eth(u.MACs[world.MRouter], cm, 0x0800, fb.IPv4(clientIP(k%4+(k/4+o.I)%2), u.RouterIP, 17, 64, 1, fb.UDP(4000, 4001, []byte("b")))))
				}
				pr["frame_burst_at_tick"]++
			case 0:
				a.inject(i, "ip4", 0, fb.Eth(u.MACs[world.MRouter], m, 0x0800, fb.IPv4(clientIP(o.M+o.I%2), u.RouterIP, 17, 64, 1, fb.UDP(4000, 4001, []byte("d")))))
			case 1:
				src, dst := u.IP6(world.MC1+o.M%4, o.I%4), netip.MustParseAddr("ff02::1")
				a.inject(i, "ip6", 0, fb.Eth(fb.MulticastMAC6(dst), m, 0x86dd, fb.IPv6(src, dst, 58, 64, fb.Echo6(src, dst, 128, 3, 1, nil))))
			case 2:
				tpa := u.RouterIP
				if o.I%3 == 0 {
					tpa = clientIP(o.M + 1)
				}
				a.inject(i, "arpreq", 0, fb.Eth(fb.Broadcast, m, 0x0806, fb.ARP(1, m, clientIP(o.M), fb.MAC{}, tpa)))
			case 3:
				a.inject(i, "probe", 0, fb.Eth(fb.Broadcast, m, 0x0806, fb.ARP(1, m, zero, fb.MAC{}, clientIP(o.I))))
			case 4:
				ra, rmac, rip := raOf(u, Op{N: o.N, P: o.I, X: o.I % 5, S: o.M % 2}) // two routers
				dst := netip.MustParseAddr("ff02::1")
				a.inject(i, "ra", 0, fb.Eth(fb.MulticastMAC6(dst), rmac, 0x86dd, fb.IPv6(rip, dst, 58, 255, fb.ICMP6(rip, dst, 134, 0, ra.Body()))))
			case 5:
				xid := byte(len(a.in))
				d := fb.DHCP{Op: 1, XID: [4]byte{7, byte(a.id), xid, byte(o.M)}, CHAddr: m, Options: []fb.DHCPOpt{{Code: 53, Data: []byte{1}}, {Code: 12, Data: []byte("cli")}}}
				a.inject(i, "discover", 0, fb.Eth(fb.Broadcast, m, 0x0800, fb.IPv4(zero, bc, 17, 64, 1, fb.UDP(68, 67, d.Bytes()))))
			case 6:
				// init-reboot request for an address: exercises DHCPv4Update + forced decline goroutines
				x := clientIP(o.I).As4()
				xid := byte(len(a.in))
				d := fb.DHCP{Op: 1, XID: [4]byte{8, byte(a.id), xid, byte(o.M)}, CHAddr: m, Options: []fb.DHCPOpt{{Code: 53, Data: []byte{3}}, {Code: 50, Data: x[:]}}}
				a.inject(i, "request", 0, fb.Eth(fb.Broadcast, m, 0x0800, fb.IPv4(zero, bc, 17, 64, 1, fb.UDP(68, 67, d.Bytes()))))
			case 7:
				a.inject(i, "dns", 0, dnsResponseFrame(u, m, clientIP(o.M), o.N))
			case 8:
				a.inject(i, "mdns", 0, mdnsResponseFrame(u, m, clientIP(o.M), o.N))
			}
		case "pause":
			pr["silence_longer_than_purge_deadline"]++
			// ... by a little less than N minutes: the burst that follows waits for the next minute
			// boundary, which then is, more often than not, the very tick at which purge deletes
			simrt.Sleep(int64(time.Duration(o.N)*time.Minute - 20*time.Second))
		case "fault":
			pr["fault"]++
			switch o.P % 3 {
			case 0:
				simrt.NetCtl(simrt.NetCtlReadErrTemp, o.N)
			case 1:
				simrt.NetCtl(simrt.NetCtlWriteErrTemp, o.N)
			default:
				// drop: nothing to do here, frames are dropped by not being sent; duplicate one instead
				simrt.NetInject(0, w.BackgroundFrame())
			}
		case "close":
			// wait a while, then close everything while the others may still be busy
			simrt.Sleep(int64(time.Duration(o.X) * 67 * time.Second)) // up to nine minutes of traffic, purge ticks and ageing
			simrt.Close(closing)
			var second simsync.WaitGroup
			if o.I == 1 {
				// Close is part of the control API "any number of goroutines" may use: a second caller
				// closes everything at the same time, in the opposite order
				second.Add(1)
				simrt.GoHarness(60, func() {
					defer second.Done()
					if (o.P == 0) != (o.N == 1) { // N=1: the same order as the first caller
						w.S.Close()
						w.DNS.Close()
						w.DHCP.Close()
						w.ICMP6.Close()
						w.ARP.Close()
					} else {
						w.ARP.Close()
						w.ICMP6.Close()
						w.DHCP.Close()
						w.DNS.Close()
						w.S.Close()
					}
				})
				pr["concurrent_second_close"]++
			}
			defer second.Wait()
			a.call(i, o, func() (int64, error) {
				if o.P == 0 {
					w.ARP.Close()
					w.ICMP6.Close()
					w.DHCP.Close()
					w.DNS.Close()
					// the handlers are closed, the session still reads: traffic keeps arriving (router
					// advertisements of both routers, a DHCP DISCOVER, an ARP request) and must find
					// closed handlers harmless
					for k := 0; k < 2; k++ {
						ra, rmac, rip := raOf(u, Op{N: 3 + k, P: k, S: k})
						dst := netip.MustParseAddr("ff02::1")
						for n := 0; n < 4; n++ { // the handler looks at one advertisement in four
							simrt.NetInject(0, fb.Eth(fb.MulticastMAC6(dst), rmac, 0x86dd, fb.IPv6(rip, dst, 58, 255, fb.ICMP6(rip, dst, 134, 0, ra.Body()))))
						}
					}
					m0 := clientMAC(0)
					dd := fb.DHCP{Op: 1, XID: [4]byte{0xc, 0, 0, 1}, CHAddr: m0, Options: []fb.DHCPOpt{{Code: 53, Data: []byte{1}}}}
					simrt.NetInject(0, fb.Eth(fb.Broadcast, m0, 0x0800, fb.IPv4(netip.MustParseAddr("0.0.0.0"), netip.MustParseAddr("255.255.255.255"), 17, 64, 1, fb.UDP(68, 67, dd.Bytes()))))
					simrt.NetInject(0, fb.Eth(fb.Broadcast, m0, 0x0806, fb.ARP(1, m0, clientIP(0), fb.MAC{}, u.RouterIP)))
					simrt.Settle()
					pr["traffic_after_handlers_closed"]++
					w.S.Close()
				} else {
					w.S.Close()
					w.DNS.Close()
					w.DHCP.Close()
					w.ICMP6.Close()
					w.ARP.Close()
				}
				return 0, nil
			})
			closeRec = a.log[len(a.log)-1]
		}
	}
	for _, a := range c.actors {
		a.body = body
	}
	// keep the NIC watchdog quiet for the whole run
	var bgWG simsync.WaitGroup
	bgWG.Add(1)
	simrt.GoHarness(3, func() {
		defer bgWG.Done()
		for !isClosing() {
			simrt.NetInject(0, w.BackgroundFrame())
			simrt.Sleep(int64(100 * time.Second))
		}
	})
	c.start()
	c.wg.Wait()
	bgWG.Wait()
	c.loopWG.Wait() // Close makes ReadFrom fail: the loop ends
	// every library timer period elapses; nothing of the library may still be running
	simrt.Sleep(int64(10 * time.Minute))
	simrt.Settle()
	c.stopMonitor()
	mu.Lock()
	defer mu.Unlock()
	e.lock, e.unlock = nil, nil
	// everything has stopped: the final quiescent point
	apiUserCheckTables(e, "C09.tables", "the end of the concurrent run (everything closed)")

	for _, l := range splitLines(simrt.TaskInfo()) {
		var id, kind, site, last int
		var state string
		if n, _ := fmt.Sscanf(l, "%d %d %s %d %d", &id, &kind, &state, &site, &last); n != 5 {
			continue
		}
		if state == "lock" {
			e.violate("C09.deadlock", "task-blocked-on-lock-at-end", fmt.Sprintf("task %d (kind %d, started at %s) is still blocked on a lock at %s", id, kind, Sites[site].Pos, Sites[last].Pos))
		}
		if kind == 0 {
			s := Sites[site]
			e.violate("C09.close", "goroutine-alive-after-close:"+s.Func, fmt.Sprintf("library goroutine started in %s (%s) is still alive (%s at %s) 10 virtual minutes after Close returned", s.Func, s.Pos, state, Sites[last].Pos))
		}
	}
	// control-plane registers are linearizable
	var ops []porcupine.Operation
	for _, r := range c.calls() {
		if r.Op.K != "api" {
			continue
		}
		var in ctlOp
		var out ctlOut
		switch r.Op.P % numAPI9 {
		case aCaptureCtl:
			in = ctlOp{kind: "capture", mac: r.Op.M % 2}
		case aReleaseCtl:
			in = ctlOp{kind: "release", mac: r.Op.M % 2}
		case aIsCapturedCtl:
			in, out = ctlOp{kind: "iscaptured", mac: r.Op.M % 2}, ctlOut{b: r.Val == 1}
		case aSetOfferCtl:
			x := clientIP(r.Op.I).As4()
			in = ctlOp{kind: "setoffer", mac: r.Op.M % 2, arg: fmt.Sprint(int(x[3]) + 1)}
		case aGetOfferCtl:
			in, out = ctlOp{kind: "getoffer", mac: r.Op.M % 2}, ctlOut{s: fmt.Sprint(r.Val)}
		default:
			continue
		}
		ops = append(ops, porcupine.Operation{ClientId: r.Actor, Input: in, Call: r.Inv, Output: out, Return: r.Ret})
	}
	if len(ops) > 0 && len(ops) <= 60 {
		model := porcupine.Model{
			Partition: func(history []porcupine.Operation) [][]porcupine.Operation {
				p := map[int][]porcupine.Operation{}
				for _, o := range history {
					p[o.Input.(ctlOp).mac] = append(p[o.Input.(ctlOp).mac], o)
				}
				var keys []int
				for k := range p {
					keys = append(keys, k)
				}
				sort.Ints(keys)
				var out [][]porcupine.Operation
				for _, k := range keys {
					out = append(out, p[k])
				}
				return out
			},
			Init: func() interface{} { return ctlState{offer: "0"} },
			Step: func(state, input, output interface{}) (bool, interface{}) {
				s, in, out := state.(ctlState), input.(ctlOp), output.(ctlOut)
				switch in.kind {
				case "capture":
					s.captured = true
				case "release":
					s.captured = false
				case "iscaptured":
					return out.b == s.captured, s
				case "setoffer":
					s.offer = in.arg
				case "getoffer":
					return out.s == s.offer, s
				}
				return true, s
			},
			Equal: func(a, b interface{}) bool { return a.(ctlState) == b.(ctlState) },
		}
		switch porcupine.CheckOperationsTimeout(model, ops, 10*time.Second) {
		case porcupine.Illegal:
			e.violate("C09.linearizability", "control-plane-registers", fmt.Sprintf("the history of Capture/Release/IsCaptured/SetDHCPv4IPOffer/DHCPv4IPOffer on the control MACs is not linearizable: %v", ops))
		case porcupine.Ok:
			e.probe("linearizability_checked")
		default:
			e.probe("linearizability_inconclusive")
		}
	}
	for _, p := range probes {
		for k, v := range p {
			e.res.Probes[k] += v
		}
	}
	for k, v := range monProbes {
		e.res.Probes[k] += v
	}
	_ = closeRec
	e.res.FramesOut += len(c.out)
	e.res.FramesIn = w.Frames
}

// dnsResponseFrame is a unicast DNS response (A record) addressed to a client.
func dnsResponseFrame(u *world.Universe, dstMAC fb.MAC, dstIP netip.Addr, n int) []byte {
	name := []string{"www.example.com", "cdn.test.org", "a.b.c.example.net"}[n%3]
	msg := dnsMessage(uint16(n), 0x8180, name, []byte{93, 184, byte(n), 34}, 1)
	udp := fb.UDP(53, 40000+uint16(n), msg)
	return fb.Eth(dstMAC, u.MACs[world.MRouter], 0x0800, fb.IPv4(netip.MustParseAddr("8.8.8.8"), dstIP, 17, 60, 1, udp))
}

// mdnsResponseFrame is a multicast DNS response announcing name.local -> the sender's address.
func mdnsResponseFrame(u *world.Universe, src fb.MAC, srcIP netip.Addr, n int) []byte {
	name := []string{"printer.local", "phone-of-x.local", "tv.local"}[n%3]
	a := srcIP.As4()
	msg := dnsMessage(0, 0x8400, name, a[:], 0)
	udp := fb.UDP(5353, 5353, msg)
	return fb.Eth(fb.MAC{0x01, 0x00, 0x5e, 0, 0, 0xfb}, src, 0x0800, fb.IPv4(srcIP, netip.MustParseAddr("224.0.0.251"), 17, 255, 1, udp))
}

// dnsMessage builds a minimal DNS message with nq questions for name and one A answer.
func dnsMessage(id, flags uint16, name string, a []byte, nq int) []byte {
	var qn []byte
	lbl := ""
	for i := 0; i <= len(name); i++ {
		if i == len(name) || name[i] == '.' {
			qn = append(qn, byte(len(lbl)))
			qn = append(qn, lbl...)
			lbl = ""
		} else {
			lbl += string(name[i])
		}
	}
	qn = append(qn, 0)
	b := []byte{byte(id >> 8), byte(id), byte(flags >> 8), byte(flags), 0, byte(nq), 0, 1, 0, 0, 0, 0}
	if nq == 1 {
		b = append(b, qn...)
		b = append(b, 0, 1, 0, 1)
	}
	b = append(b, qn...)
	b = append(b, 0, 1, 0, 1, 0, 0, 0, 120, 0, 4)
	b = append(b, a...)
	return b
}

// apiUserHostOnline reads an exported field of a Host exactly as the package documentation
// tells API users to: under the row read lock. A race report whose harness-side frame is an
// apiUser* function is attributed to the library, not to the harness.
func apiUserHostOnline(h *packet.Host) bool {
	h.MACEntry.Row.RLock()
	defer h.MACEntry.Row.RUnlock()
	return h.Online
}
