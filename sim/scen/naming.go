package scen

import (
	"fmt"
	"net/netip"
	"sort"
	"strings"

	"verif/sim/fb"
	"verif/sim/simrt"
	"verif/sim/world"
)

// ---- family "naming": DNS / mDNS / LLMNR / NBNS / SSDP / RA traffic for the C10 differential ----

func genNaming(prop string, seed uint64, tier string) Scenario {
	r := &rng{s: seed ^ 0x4a3e}
	sc := Scenario{Prop: prop, Family: "naming", Seed: seed}
	c := &sc.Cfg
	c.ProbeMin, c.OfflineMin, c.PurgeMin = 2, 5, 61
	c.HomeBits, c.NFBits = 24, 25
	c.HostLLA = true
	c.ARP, c.ICMP6, c.DHCP, c.DNS = true, true, true, true
	c.DHCPMode = 1 + r.n(3)
	c.Debug = r.chance(1, 4)
	c.PreemptN = r.pick(0, 1, 16)
	c.ReuseBuf = r.chance(1, 2)
	n := 3 + r.n(25)
	for i := 0; i < n; i++ {
		sc.Ops = append(sc.Ops, Op{K: "nframe", P: r.n(9), M: r.n(4), I: r.n(8), N: r.n(64), X: r.n(16)})
		if r.chance(1, 6) {
			sc.Ops = append(sc.Ops, Op{K: "adv", D: r.n(4)})
		}
	}
	return sc
}

var nbnsNames = []string{"WORKGROUP", "LAPTOP-7", "NAS"}

func nbnsEncode(name string) []byte {
	for len(name) < 16 {
		name += " "
	}
	out := []byte{32}
	for i := 0; i < 16; i++ {
		out = append(out, 'A'+name[i]>>4, 'A'+name[i]&0x0f)
	}
	return append(out, 0)
}

func runNaming(e *exec) {
	w := e.w
	u := w.U
	w.StartLoop()
	simrt.Settle()
	w.Drain()
	w.PollOut()
	mac := func(m int) fb.MAC { return u.MACs[world.MC1+m%4] }
	ip := func(m int) netip.Addr { return u.IP4[world.FirstClientIP4+m%(len(u.IP4)-world.FirstClientIP4)] }
	for i, o := range e.sc.Ops {
		e.step = i
		e.res.OpsRun++
		e.res.OpKinds[o.K]++
		switch o.K {
		case "adv":
			w.Advance(advDuration(w.Cfg, o.D), func() { w.Drain(); w.PollOut() })
			continue
		case "nframe":
			m, src := mac(o.M), ip(o.M)
			if o.I%4 == 3 {
				// an IPv4 link-local source, outside the home LAN: the session tracks no host for it, the
				// naming handlers still see the frame
				src = netip.AddrFrom4([4]byte{169, 254, 7, byte(10 + o.M%4)})
			}
			switch o.P % 9 {
			case 0:
				w.Inject(dnsResponseFrame(u, m, src, o.N))
			case 1:
				w.Inject(mdnsResponseFrame(u, m, src, o.N))
			case 2: // LLMNR response
				a := src.As4()
				msg := dnsMessage(uint16(o.N), 0x8000, []string{"winbox", "desktop-1"}[o.N%2], a[:], 1)
				w.Inject(fb.Eth(u.MACs[world.MOwn], m, 0x0800, fb.IPv4(src, u.HostIP, 17, 64, 1, fb.UDP(5355, 5355, msg))))
			case 3: // NBNS name query / registration from a host
				q := []byte{byte(o.N), 1, 0x29, 0x10, 0, 1, 0, 0, 0, 0, 0, 1}
				q = append(q, nbnsEncode(nbnsNames[o.N%3])...)
				q = append(q, 0, 0x20, 0, 1)
				q = append(q, 0xc0, 0x0c, 0, 0x20, 0, 1, 0, 0, 0x0e, 0x10, 0, 6, 0, 0)
				a := src.As4()
				q = append(q, a[:]...)
				w.Inject(fb.Eth(fb.Broadcast, m, 0x0800, fb.IPv4(src, u.HomeBcast, 17, 64, 1, fb.UDP(137, 137, q))))
			case 4: // SSDP notify
				body := fmt.Sprintf("NOTIFY * HTTP/1.1\r\nHOST: 239.255.255.250:1900\r\nCACHE-CONTROL: max-age=60\r\nLOCATION: http://%s:8080/desc.xml\r\nNT: upnp:rootdevice\r\nNTS: ssdp:alive\r\nSERVER: Linux/3.1 UPnP/1.0 TV%d/1.0\r\nUSN: uuid:%04d::upnp:rootdevice\r\n\r\n", src, o.N%3, o.N)
				w.Inject(fb.Eth(fb.MAC{0x01, 0, 0x5e, 0x7f, 0xff, 0xfa}, m, 0x0800, fb.IPv4(src, netip.MustParseAddr("239.255.255.250"), 17, 4, 1, fb.UDP(1900, 1900, []byte(body)))))
			case 5: // SSDP M-SEARCH with a user agent
				body := fmt.Sprintf("M-SEARCH * HTTP/1.1\r\nHOST: 239.255.255.250:1900\r\nMAN: \"ssdp:discover\"\r\nMX: 1\r\nST: ssdp:all\r\nUSER-AGENT: Google Chrome/9%d.0 Windows\r\n\r\n", o.N%10)
				w.Inject(fb.Eth(fb.MAC{0x01, 0, 0x5e, 0x7f, 0xff, 0xfa}, m, 0x0800, fb.IPv4(src, netip.MustParseAddr("239.255.255.250"), 17, 4, 1, fb.UDP(50000, 1900, []byte(body)))))
			case 6: // router advertisement
				ra, rmac, rip := raOf(u, Op{N: o.N, P: o.X, X: o.X % 5})
				dst := netip.MustParseAddr("ff02::1")
				w.Inject(fb.Eth(fb.MulticastMAC6(dst), rmac, 0x86dd, fb.IPv6(rip, dst, 58, 255, fb.ICMP6(rip, dst, 134, 0, ra.Body()))))
			case 7: // DHCP discover with a host name and client id
				d := fb.DHCP{Op: 1, XID: [4]byte{5, byte(i), 1, byte(o.M)}, CHAddr: m, Options: []fb.DHCPOpt{{Code: 53, Data: []byte{1}}, {Code: 61, Data: append([]byte{1}, m[:]...)}, {Code: 12, Data: []byte(hostnames[1+o.N%2])}}}
				w.Inject(fb.Eth(fb.Broadcast, m, 0x0800, fb.IPv4(netip.MustParseAddr("0.0.0.0"), netip.MustParseAddr("255.255.255.255"), 17, 64, 1, fb.UDP(68, 67, d.Bytes()))))
			case 8: // plain traffic so that names get notified
				w.Inject(fb.Eth(u.MACs[world.MRouter], m, 0x0800, fb.IPv4(src, u.RouterIP, 17, 64, 1, fb.UDP(4000, 4001, []byte("x")))))
			}
		}
		simrt.Settle()
		w.Drain()
		e.res.FramesOut += len(w.PollOut())
	}
	e.res.FramesIn = w.Frames
}

// dumpState appends everything the library retained to the transcript (C10).
func dumpState(e *exec) {
	w := e.w
	tx := w.Tx
	var lines []string
	for _, h := range w.S.GetHosts() {
		h.MACEntry.Row.RLock()
		lines = append(lines, fmt.Sprintf("host %x %s online=%v dhcp=%q mdns=%q ssdp=%q llmnr=%q nbns=%q manuf=%q", []byte(h.MACEntry.MAC), h.Addr.IP, h.Online,
			h.DHCP4Name.Name, h.MDNSName.Name+"|"+h.MDNSName.Model, h.SSDPName.Name+"|"+h.SSDPName.Model, h.LLMNRName.Name, h.NBNSName.Name, h.Manufacturer))
		h.MACEntry.Row.RUnlock()
	}
	w.S.VerifRLock()
	for _, m := range w.S.MACTable.Table {
		m.Row.RLock()
		lines = append(lines, fmt.Sprintf("mac %x captured=%v ip4=%s offer=%s lla=%s gua=%s hosts=%d dhcp=%q mdns=%q ssdp=%q nbns=%q", []byte(m.MAC), m.Captured, m.IP4, m.IP4Offer, m.IP6LLA, m.IP6GUA,
			len(m.HostList), m.DHCP4Name.Name, m.MDNSName.Name, m.SSDPName.Name, m.NBNSName.Name))
		m.Row.RUnlock()
	}
	w.S.VerifRUnlock()
	if w.ICMP6 != nil {
		for _, rip := range []netip.Addr{w.U.RouterLLA, w.U.IP6(world.MC5, 0)} {
			r := w.ICMP6.FindRouter(rip)
			if r.Addr.IP.IsValid() {
				lines = append(lines, "router "+routerViewLib(r))
			}
		}
	}
	if w.DNS != nil {
		for _, n := range []string{"www.example.com", "cdn.test.org", "a.b.c.example.net", "printer.local", "tv.local"} {
			d := w.DNS.DNSFind(n)
			var ips []string
			for k := range d.IP4Records {
				ips = append(ips, k.String())
			}
			sort.Strings(ips)
			lines = append(lines, fmt.Sprintf("dns %q -> %q %v", n, d.Name, ips))
		}
	}
	if w.DNS != nil {
		for _, l := range w.DNS.VerifMDNSCache() {
			lines = append(lines, "mdnscache "+l)
		}
	}
	if data, ok := readLeaseFile(); ok {
		lines = append(lines, "leasefile "+strings.ReplaceAll(string(data), "\n", "\\n"))
	}
	sort.Strings(lines)
	for _, l := range lines {
		tx("state", l)
	}
}
