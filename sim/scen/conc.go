package scen

import (
	"fmt"
	"net/netip"
	"sort"
	"time"

	"verif/sim/refdec"
	"verif/sim/simrt"
	"verif/sim/simsync"
	"verif/sim/world"
)

// ---- concurrent-mode infrastructure: actors, wire monitor, logs ----

var delayCodes = []time.Duration{0, time.Millisecond, 50 * time.Millisecond, 500 * time.Millisecond, time.Second,
	2500 * time.Millisecond, 6 * time.Second, 7 * time.Second, 13 * time.Second, 30 * time.Second}

func delayOf(code int) time.Duration { return delayCodes[code%len(delayCodes)] }

// callRec is one API call of an actor, stamped with the kernel's global event sequence
// number and virtual time at invocation and return.
type callRec struct {
	Actor      int
	Idx        int // index of the op in the scenario
	Op         Op
	Inv, Ret   int64
	TInv, TRet time.Duration
	Err        string
	Val        int64
}

// inRec is one frame injected into the session's connection.
type inRec struct {
	Seq   int64
	T     time.Duration // delivery time
	F     *refdec.Frame
	Tag   string
	OpIdx int
}

type actor struct {
	id   int
	ops  []Op
	idx  []int
	log  []callRec
	in   []inRec
	body func(a *actor, i int, o Op)
}

type conc struct {
	*exec
	actors  []*actor
	out     []world.Out // every frame the library wrote, in order
	monIn   []inRec     // frames injected by the monitor (responders)
	stop    chan struct{}
	wg      simsync.WaitGroup
	monDone simsync.WaitGroup
	react   func(c *conc, o world.Out) // reactive nodes (runs in the monitor task)
	loopWG  simsync.WaitGroup
}

func now() time.Duration { return time.Duration(simrt.Now()) }

// call runs f as the API call of op i of actor a and records it.
func (a *actor) call(i int, o Op, f func() (int64, error)) {
	r := callRec{Actor: a.id, Idx: a.idx[i], Op: o}
	r.Inv, r.TInv = simrt.Seq(), now()
	v, err := f()
	r.Ret, r.TRet = simrt.Seq(), now()
	r.Val = v
	if err != nil {
		r.Err = err.Error()
	}
	a.log = append(a.log, r)
}

// inject delivers a frame after delay and records it in the actor's log.
func (a *actor) inject(i int, tag string, delay time.Duration, frame []byte) {
	seq := simrt.Seq()
	simrt.NetInject(int64(delay), frame)
	a.in = append(a.in, inRec{Seq: seq, T: now() + delay, F: refdec.Decode(frame), Tag: tag, OpIdx: a.idx[i]})
}

// newConc splits the scenario's ops by actor (field T) preserving their order.
func newConc(e *exec, body func(a *actor, i int, o Op)) *conc {
	c := &conc{exec: e, stop: make(chan struct{})}
	byActor := map[int]*actor{}
	var ids []int
	for i, o := range e.sc.Ops {
		a := byActor[o.T]
		if a == nil {
			a = &actor{id: o.T, body: body}
			byActor[o.T] = a
			ids = append(ids, o.T)
		}
		a.ops = append(a.ops, o)
		a.idx = append(a.idx, i)
	}
	sort.Ints(ids)
	for _, id := range ids {
		c.actors = append(c.actors, byActor[id])
	}
	return c
}

// start launches the packet loop, the wire monitor and one task per actor.
func (c *conc) start() {
	w := c.w
	c.loopWG.Add(1)
	w.LoopExit = func() { c.loopWG.Done() }
	w.StartLoop()
	c.monDone.Add(1)
	simrt.GoHarness(2, func() {
		defer c.monDone.Done()
		for {
			progressed := false
			for _, o := range w.PollOut() {
				c.out = append(c.out, o)
				progressed = true
				if c.react != nil {
					c.react(c, o)
				}
			}
			select {
			case <-c.stop:
				for _, o := range w.PollOut() {
					c.out = append(c.out, o)
				}
				return
			default:
			}
			if !progressed {
				simrt.Park(-40)
			}
		}
	})
	for _, a := range c.actors {
		a := a
		c.wg.Add(1)
		simrt.GoHarness(10+a.id, func() {
			defer c.wg.Done()
			for i, o := range a.ops {
				if d := delayOf(o.D); d > 0 {
					simrt.Sleep(int64(d))
				}
				a.body(a, i, o)
			}
		})
	}
}

// stopMonitor ends the wire monitor after it has drained the wire.
func (c *conc) stopMonitor() {
	simrt.Close(c.stop)
	c.monDone.Wait()
}

// calls returns every call record, ordered by invocation.
func (c *conc) calls() []callRec {
	var l []callRec
	for _, a := range c.actors {
		l = append(l, a.log...)
	}
	sort.Slice(l, func(i, j int) bool { return l[i].Inv < l[j].Inv })
	return l
}

// inbound returns every injected frame (actors and responders), ordered by injection.
func (c *conc) inbound() []inRec {
	var l []inRec
	for _, a := range c.actors {
		l = append(l, a.in...)
	}
	l = append(l, c.monIn...)
	sort.Slice(l, func(i, j int) bool { return l[i].Seq < l[j].Seq })
	return l
}

// libraryTasks lists the live tasks that were started by library code.
func libraryTasks() []string {
	var out []string
	for _, l := range splitLines(simrt.TaskInfo()) {
		var id, kind int
		var state string
		var site, last int
		if n, _ := fmt.Sscanf(l, "%d %d %s %d %d", &id, &kind, &state, &site, &last); n == 5 && kind == 0 {
			out = append(out, fmt.Sprintf("task %d %s gosite=%d at=%d", id, state, site, last))
		}
	}
	return out
}

func splitLines(s string) []string {
	var out []string
	cur := ""
	for _, r := range s {
		if r == '\n' {
			if cur != "" {
				out = append(out, cur)
			}
			cur = ""
		} else {
			cur += string(r)
		}
	}
	if cur != "" {
		out = append(out, cur)
	}
	return out
}

func v4(a, b, c, d int) netip.Addr {
	return netip.AddrFrom4([4]byte{byte(a), byte(b), byte(c), byte(d)})
}

// Site describes a rewritten source location (from simgen's sites.json).
type Site struct {
	ID   int    `json:"id"`
	Pos  string `json:"pos"`
	Kind string `json:"kind"`
	Func string `json:"func"`
}

// Sites maps site ids to source locations; loaded by the worker.
var Sites = map[int]Site{}

// sessionSites are the functions whose goroutines legitimately live as long as the session.
var sessionSites = []string{"Config.NewSession"}

// libraryTasksExcept lists live library-started tasks whose go statement is not in one of
// the given functions.
func libraryTasksExcept(funcs []string) []string {
	var out []string
	for _, l := range splitLines(simrt.TaskInfo()) {
		var id, kind, site, last int
		var state string
		if n, _ := fmt.Sscanf(l, "%d %d %s %d %d", &id, &kind, &state, &site, &last); n != 5 || kind != 0 {
			continue
		}
		s := Sites[site]
		skip := false
		for _, f := range funcs {
			if s.Func == f {
				skip = true
			}
		}
		if !skip {
			out = append(out, fmt.Sprintf("task %d (%s) started in %s at %s, now at %s", id, state, s.Func, s.Pos, Sites[last].Pos))
		}
	}
	return out
}
