package scen

import (
	"encoding/json"
	"fmt"

	"verif/sim/simrt"
	"verif/sim/world"
)

// Families lists, per property, the scenario families its check runs.
var Families = map[string][]string{
	"C04": {"hosts"},
	"C05": {"hosts", "conc9"},
	"C06": {"hosts"},
	"C11": {"dhcp"},
	"C12": {"dhcp"},
	"C18": {"lease"},
	"C19": {"ping"},
	"C13": {"arpspoof"},
	"C14": {"ndspoof"},
	"C09": {"conc9"},
	"C10": {"hosts", "dhcp", "naming"},
	"C07": {"sends", "hosts", "dhcp", "arpspoof", "ndspoof", "ping"},
}

// Generate builds the scenario for (property, family, seed).
func Generate(prop, family string, seed uint64, tier string) Scenario {
	sc := generate(prop, family, seed, tier)
	// log level is a knob like any other: behaviour must not depend on it
	if !sc.Cfg.Debug && (seed>>7)%3 == 0 {
		sc.Cfg.LogErrorsOnly = true
	}
	if prop == "C10" {
		if sc.Extra == nil {
			sc.Extra = map[string]int{}
		}
		sc.Extra["transcript"] = 1
		sc.Extra["buf"] = 1     // this process: one shared, scribbled buffer; the child: private buffers
		sc.Cfg.ReuseBuf = false // the differential sets the buffer discipline itself
		sc.Cfg.DNS = true
		if family == "dhcp" {
			sc.Cfg.LeaseFile = true
		}
	}
	return sc
}

func generate(prop, family string, seed uint64, tier string) Scenario {
	switch family {
	case "hosts":
		return genHosts(prop, seed, tier)
	case "dhcp":
		return genDHCP(prop, seed, tier)
	case "lease":
		return genDHCP("C18", seed, tier)
	case "ping":
		return genPing(prop, seed, tier)
	case "arpspoof":
		return genARPSpoof(prop, seed, tier)
	case "ndspoof":
		return genNDSpoof(prop, seed, tier)
	case "sends":
		return genSends(prop, seed, tier)
	case "conc9":
		return genConc9(prop, seed, tier)
	case "naming":
		return genNaming(prop, seed, tier)
	}
	panic("unknown family " + family)
}

// KernelConfig derives the kernel configuration from the scenario.
func KernelConfig(sc Scenario, tape []uint32, replay bool, trace bool) simrt.Config {
	// Step budgets: several times the largest run observed per family on the unchanged tree
	// (evidence key max_scheduling_points_in_run; at least six times here), so that a run-away
	// loop is cut short quickly where scenarios are small and long virtual-time leaps still fit
	// where they are not.
	budget := int64(12_000_000) // hosts, lease, sends, naming: day-long leaps through minute tickers (1.9 M observed in the thorough tier)
	switch sc.Family {
	case "conc9", "dhcp":
		budget = 600_000 // 46 k observed
	case "arpspoof", "ndspoof":
		budget = 300_000 // 3 k observed
	case "ping":
		budget = 200_000 // 1 k observed
	}
	return simrt.Config{Seed: sc.Seed*0x9e3779b97f4a7c15 + 1, Tape: tape, Replay: replay,
		PreemptN: sc.Cfg.PreemptN, HintMax: sc.Cfg.HintMax, StallDen: sc.Cfg.StallDen,
		MaxSteps: budget, TraceFull: trace}
}

// Driver returns the driver task body for a scenario.
func Driver(sc Scenario, trace bool) func() {
	return func() {
		e := newExec(sc)
		e.trace = trace
		w, err := world.New(sc.Cfg)
		if err != nil {
			e.violate("infra.setup", "world", err.Error())
			b, _ := json.Marshal(e.finish())
			simrt.Result(b)
		}
		e.w = w
		if sc.Extra["transcript"] == 1 {
			w.SharedBuf = sc.Extra["buf"] == 1
			w.Scribble = sc.Extra["buf"] == 1
			w.Tx = func(kind, line string) {
				if len(e.res.Transcript) < 20000 {
					e.res.Transcript = append(e.res.Transcript, kind+" "+line)
				}
			}
		}
		// a malformed frame does not invalidate the rest of the history: keep going
		w.Violation = func(oracle, key, detail string) { e.violateSoft(oracle, key, detail) }
		switch sc.Family {
		case "hosts":
			runHosts(e)
		case "dhcp":
			runDHCP(e)
		case "lease":
			runLease(e)
		case "ping":
			runPing(e)
		case "arpspoof":
			runARPSpoof(e)
		case "ndspoof":
			runNDSpoof(e)
		case "sends":
			runSends(e)
		case "conc9":
			runConc9(e)
		case "naming":
			runNaming(e)
		default:
			e.violate("infra.setup", "family", fmt.Sprintf("unknown family %q", sc.Family))
		}
		// every frame written during the run passes the wire invariant
		e.res.FramesOut += len(w.PollOut())
		if sc.Extra["transcript"] == 1 && w.Tx != nil {
			dumpState(e)
		}
		b, _ := json.Marshal(e.finish())
		simrt.Result(b)
	}
}

// NeedsRace reports whether the property's check also runs under the race detector.
func NeedsRace(prop string) bool { return prop == "C09" }

// RaceEvery: every n-th run of the property uses the race build.
func RaceEvery(prop string) int {
	if prop == "C09" {
		return 3
	}
	return 0
}

// Level is the verification level claimed for the property.
func Level(prop string) string {
	if prop == "C18" {
		return "fault_enumeration"
	}
	return "exploration"
}
