package scen

import (
	"encoding/json"
	"fmt"
	"net/netip"
	"sort"
	"time"

	"github.com/irai/packet"

	"verif/sim/fb"
	"verif/sim/refdec"
	"verif/sim/simrt"
	"verif/sim/world"
)

// ---- family "arpspoof": C13 ----

const arpCycle = 6 * time.Second

func genARPSpoof(prop string, seed uint64, tier string) Scenario {
	r := &rng{s: seed ^ 0xa13}
	sc := Scenario{Prop: prop, Family: "arpspoof", Seed: seed}
	c := &sc.Cfg
	c.ProbeMin, c.OfflineMin, c.PurgeMin = 2, 5, 61
	hb := [][2]int{{24, 25}, {25, 26}, {26, 28}, {28, 30}}[r.n(4)]
	c.HomeBits, c.NFBits = hb[0], hb[1]
	c.HostLLA = true
	c.ARP = true
	c.Concurrent = true
	c.ReuseBuf = r.chance(1, 2)
	c.Debug = r.chance(1, 4)
	c.PreemptN = r.pick(1, 1, 4, 16)
	c.HintMax = r.pick(0, 10, 100)
	if r.chance(1, 4) {
		c.StallDen = r.pick(64, 256)
	}
	ntargets := 2 + r.n(3)
	napi := 1 + r.n(2)
	nops := 4 + r.n(22)
	if r.chance(1, 3) {
		nops = 2 + r.n(5)
	}
	for i := 0; i < nops; i++ {
		m := r.n(ntargets)
		switch r.weighted([]int{10, 8, 8, 5, 3, 3, 3}) {
		case 0:
			sc.Ops = append(sc.Ops, Op{K: "hunt", T: r.n(napi), M: m, D: r.weighted([]int{4, 2, 2, 2, 2, 2, 2, 1, 1})})
		case 1:
			sc.Ops = append(sc.Ops, Op{K: "unhunt", T: r.n(napi), M: m, D: r.weighted([]int{3, 2, 2, 2, 2, 2, 3, 2, 1})})
		case 2:
			// S: whose address the sender claims (0 its own, else another target's: an address conflict)
			// X: the Ethernet source differs from the ARP sender hardware address (a relayed or crafted
			// request): 1 = sent through another target's NIC, 2 = the sender field names another target
			sc.Ops = append(sc.Ops, Op{K: "arpreq", T: 10 + m, M: m, I: r.weighted([]int{6, 2, 1}), S: r.pick(0, 0, 0, 1, 2), D: r.n(7), X: r.pick(0, 0, 0, 0, 1, 2)})
		case 3:
			sc.Ops = append(sc.Ops, Op{K: "probe", T: 10 + m, M: m, I: r.n(5), D: r.n(6)})
		case 4:
			sc.Ops = append(sc.Ops, Op{K: "offer", T: 10 + m, M: m, I: r.n(4), D: r.n(4)})
		case 5:
			sc.Ops = append(sc.Ops, Op{K: "announce", T: 10 + m, M: m, D: r.n(6)})
		case 6:
			sc.Ops = append(sc.Ops, Op{K: "arpreply", T: 10 + m, M: m, D: r.n(6)})
		}
	}
	return sc
}

type arpEvent struct {
	seq  int64
	t    time.Duration
	kind string // start, stop-inv, stop-ret, restore, forged, forged-reply
	rec  *callRec
}

func runARPSpoof(e *exec) {
	w := e.w
	u := w.U
	targetIP := func(m int) netip.Addr { return u.IP4[world.FirstClientIP4+m%(len(u.IP4)-world.FirstClientIP4)] }
	targetMAC := func(m int) fb.MAC { return u.MACs[world.MC1+m%5] }
	probeAddr := func(m, code int) netip.Addr {
		switch code {
		case 0:
			return targetIP(m) // its own (offered) address
		case 1:
			return targetIP(m + 1)
		case 2:
			return netip.MustParseAddr("8.8.8.8") // off-LAN (the android case)
		case 3:
			return u.RouterIP
		default:
			return world.AddN(u.Home.Addr(), 9)
		}
	}
	// offers per MAC, in the order the node actor made them (probes of that MAC are in the same actor)
	type offerAt struct {
		seq int64
		ip  netip.Addr
	}
	offers := map[fb.MAC][]offerAt{}
	c := newConc(e, nil)
	body := func(a *actor, i int, o Op) {
		mac := targetMAC(o.M)
		switch o.K {
		case "hunt":
			a.call(i, o, func() (int64, error) {
				st, err := w.ARP.StartHunt(packet.Addr{MAC: world.HW(mac), IP: targetIP(o.M)})
				return int64(st), err
			})
		case "unhunt":
			a.call(i, o, func() (int64, error) {
				st, err := w.ARP.StopHunt(packet.Addr{MAC: world.HW(mac), IP: targetIP(o.M)})
				return int64(st), err
			})
		case "arpreq":
			tpa := u.RouterIP
			if o.I == 1 {
				tpa = targetIP(o.M + 1)
			} else if o.I == 2 {
				tpa = u.HostIP
			}
			ethSrc, sha := mac, mac
			switch o.X {
			case 1:
				ethSrc = targetMAC(o.M + 1)
			case 2:
				sha = targetMAC(o.M + 1)
			}
			a.inject(i, "arpreq", 0, fb.Eth(fb.Broadcast, ethSrc, 0x0806, fb.ARP(1, sha, targetIP(o.M+o.S), fb.MAC{}, tpa)))
		case "probe":
			a.inject(i, "probe", 0, fb.Eth(fb.Broadcast, mac, 0x0806, fb.ARP(1, mac, netip.MustParseAddr("0.0.0.0"), fb.MAC{}, probeAddr(o.M, o.I))))
		case "offer":
			ip := probeAddr(o.M, o.I)
			seq := simrt.Seq()
			w.S.SetDHCPv4IPOffer(world.HW(mac), ip, packet.NameEntry{Type: "dhcp4", Name: "n"})
			offers[mac] = append(offers[mac], offerAt{seq: seq, ip: ip})
		case "announce":
			a.inject(i, "announce", 0, fb.Eth(fb.Broadcast, mac, 0x0806, fb.ARP(1, mac, targetIP(o.M), fb.Broadcast, targetIP(o.M))))
		case "arpreply":
			a.inject(i, "arpreply", 0, fb.Eth(u.MACs[world.MRouter], mac, 0x0806, fb.ARP(2, mac, targetIP(o.M), u.MACs[world.MRouter], u.RouterIP)))
		}
	}
	for _, a := range c.actors {
		a.body = body
	}
	c.start()
	c.wg.Wait()
	simrt.Sleep(int64(arpCycle + 2*time.Second)) // every stopped loop gets its chance to undo
	simrt.Settle()
	closeInv, tClose := simrt.Seq(), now()
	w.ARP.Close()
	closeRet := simrt.Seq()
	// Forging after Close is judged as it happens, by the wire monitor: a loop that ignores Close
	// may flood the wire and the run would never reach the oracle below.
	own0 := refdec.MAC(u.MACs[world.MOwn])
	noStalls := e.sc.Cfg.StallDen == 0 // a stalled loop may be past its check when Close returns
	c.react = func(c *conc, o world.Out) {
		a := o.F.ARP
		if noStalls && a != nil && a.SHA == own0 && a.SPA == u.RouterIP && o.Seq > closeRet && time.Duration(o.Time) > tClose {
			e.violate("C13.close", "forged-frame-after-close", fmt.Sprintf("forged frame to %s at %v after Close returned at %v", o.F.Dst, time.Duration(o.Time), tClose))
			b, _ := json.Marshal(e.finish())
			simrt.Result(b)
		}
	}
	if e.sc.Seed%2 == 0 {
		// a caller that hunts after Close gets nothing started
		simrt.Sleep(int64(time.Second))
		w.ARP.StartHunt(packet.Addr{MAC: world.HW(targetMAC(0)), IP: targetIP(0)})
		e.probe("starthunt_after_close")
	}
	simrt.Sleep(int64(2*arpCycle + time.Second))
	simrt.Settle()
	leaked := libraryTasksExcept(sessionSites)
	c.stopMonitor()

	stalls := e.sc.Cfg.StallDen > 0
	calls := c.calls()
	inb := c.inbound()
	own, rmac := refdec.MAC(u.MACs[world.MOwn]), refdec.MAC(u.MACs[world.MRouter])

	// ---- classify every ARP frame the library wrote ----
	type fr struct {
		seq  int64
		t    time.Duration
		kind string
		dst  refdec.MAC
		a    *refdec.ARP
	}
	var frames []fr
	for _, o := range c.out {
		a := o.F.ARP
		if a == nil {
			continue
		}
		k := "unexpected"
		switch {
		case a.SHA == own && a.SPA == u.RouterIP && a.Op == 1 && a.TPA == u.RouterIP:
			k = "forged"
		case a.SHA == own && a.Op == 2 && a.TPA == netip.MustParseAddr("255.255.255.255"):
			k = "probe-reject"
		case a.SHA == own && a.SPA == u.RouterIP && a.Op == 2:
			k = "forged-reply"
		case a.SHA == rmac && a.SPA == u.RouterIP && a.Op == 1:
			k = "restore"
		case a.SHA == own && a.SPA == u.HostIP && a.Op == 1:
			k = "own-request" // purge probe
		}
		frames = append(frames, fr{seq: o.Seq, t: time.Duration(o.Time), kind: k, dst: o.F.Dst, a: a})
		e.probe("arp_out_" + k)
		if k == "unexpected" {
			e.violate("C13.unexpected", "unclassified-arp-frame", fmt.Sprintf("frame seq=%d t=%v: %s", o.Seq, time.Duration(o.Time), o.F.Describe()))
		}
	}

	// ---- per target: safety and liveness ----
	for m := 0; m < 5; m++ {
		mac := refdec.MAC(targetMAC(m))
		var ev []arpEvent
		for i := range calls {
			r := &calls[i]
			if refdec.MAC(targetMAC(r.Op.M)) != mac {
				continue
			}
			switch r.Op.K {
			case "hunt":
				if r.Err == "" {
					ev = append(ev, arpEvent{seq: r.Inv, t: r.TInv, kind: "start", rec: r})
				}
			case "unhunt":
				ev = append(ev, arpEvent{seq: r.Inv, t: r.TInv, kind: "stop-inv", rec: r}, arpEvent{seq: r.Ret, t: r.TRet, kind: "stop-ret", rec: r})
			}
		}
		for _, f := range frames {
			if f.dst != mac {
				continue
			}
			switch f.kind {
			case "forged", "forged-reply", "restore":
				ev = append(ev, arpEvent{seq: f.seq, t: f.t, kind: f.kind})
			}
		}
		sort.Slice(ev, func(i, j int) bool { return ev[i].seq < ev[j].seq })
		// S1: forged frames only while the MAC can still be hunted. A loop that ends sends the
		// restoring packet as its last frame, so a restore after a StopHunt retires one loop; but a
		// StartHunt that follows a StopHunt within the same cycle legitimately overlaps with the old
		// loop's exit, so loops are counted (an upper bound: a StartHunt of a MAC that is already
		// hunted starts none) and only the restore of the last one ends the licence to forge.
		// Independently of the count, nothing forged may arrive later than one cycle after the last
		// StopHunt returned.
		possible := false
		loops := 0
		lastStopInv := int64(-1)
		lastStopRet := time.Duration(-1)
		startedAfterStop := false
		for _, x := range ev {
			switch x.kind {
			case "start":
				possible = true
				loops++
				if lastStopInv >= 0 && x.seq > lastStopInv {
					startedAfterStop = true
				}
			case "stop-inv":
				lastStopInv = x.seq
				lastStopRet = -1
				startedAfterStop = false
			case "stop-ret":
				// a StartHunt of this MAC that overlaps this StopHunt in time may have taken effect
				// after it: the order of overlapping calls is not defined
				for _, y := range ev {
					if y.kind == "start" && y.rec.Inv < x.rec.Ret && x.rec.Inv < y.rec.Ret {
						startedAfterStop = true
					}
				}
				if !startedAfterStop {
					lastStopRet = x.t
				}
			case "restore":
				if lastStopInv >= 0 && !startedAfterStop {
					if loops--; loops <= 0 {
						possible, loops = false, 0
					}
				}
			case "forged", "forged-reply":
				if !possible {
					e.violate("C13.confinement", x.kind+"-to-host-not-hunted", fmt.Sprintf("%s frame to %s at seq=%d t=%v although the host is not in the hunt list (events: %s)", x.kind, mac, x.seq, x.t, evString(ev)))
				} else if e.sc.Cfg.StallDen == 0 && lastStopRet >= 0 && !startedAfterStop && x.t > lastStopRet+7*time.Second {
					e.violate("C13.confinement", x.kind+"-later-than-one-cycle-after-stophunt", fmt.Sprintf("%s frame to %s at t=%v, StopHunt returned at %v and nobody hunted it again (events: %s)", x.kind, mac, x.t, lastStopRet, evString(ev)))
				}
			}
		}
		// S2: a forged reply answers a request of that host for the router
		nreq, nrep := 0, 0
		for _, in := range inb {
			if in.Tag == "arpreq" && in.F.ARP != nil && in.F.ARP.SHA == mac && in.F.ARP.TPA == u.RouterIP {
				nreq++
			}
		}
		for _, x := range ev {
			if x.kind == "forged-reply" {
				nrep++
			}
		}
		if nrep > nreq {
			e.violate("C13.confinement", "more-forged-replies-than-router-requests", fmt.Sprintf("%d forged replies to %s but only %d requests for the router from it", nrep, mac, nreq))
		}
		if stalls {
			continue
		}
		// liveness, stated in virtual time and only without injected stalls. A StartHunt and a
		// StopHunt of this MAC that overlap in time have no unambiguous order: such MACs are not
		// judged. Two overlapping StartHunt calls are not ambiguous: in either order the MAC is
		// hunted once (StartHunt is idempotent per MAC).
		ambiguous := func(r *callRec) bool {
			for _, y := range ev {
				if y.rec != nil && y.rec != r && y.rec.Op.K != r.Op.K && y.rec.Inv < r.Ret && r.Inv < y.rec.Ret {
					return true
				}
			}
			return false
		}
		anyAmbiguous := false
		for _, y := range ev {
			if y.rec != nil && ambiguous(y.rec) {
				anyAmbiguous = true
			}
		}
		if anyAmbiguous {
			e.probe("overlapping_calls_on_one_mac")
			continue
		}
		for i, x := range ev {
			switch x.kind {
			case "stop-ret":
				// undone within one cycle unless hunted again
				again := false
				for _, y := range ev {
					if y.kind == "start" && y.seq > x.rec.Inv {
						again = true
					}
				}
				wasHunted := false
				for _, y := range ev[:i] {
					if y.kind == "start" && y.seq < x.rec.Inv {
						wasHunted = true
					}
					if y.kind == "stop-inv" && y.seq < x.rec.Inv {
						wasHunted = false
					}
				}
				if again || !wasHunted || x.t+arpCycle > tClose {
					continue
				}
				restored := time.Duration(-1)
				for _, y := range ev {
					if y.kind == "restore" && y.seq > x.rec.Inv && y.t <= x.t+arpCycle {
						restored = y.t
					}
				}
				if restored < 0 {
					e.violate("C13.undo", "no-restoring-frame-within-one-cycle", fmt.Sprintf("StopHunt(%s) returned at %v; no ARP frame restoring the router's MAC reached the host within %v (events: %s)", mac, x.t, arpCycle, evString(ev)))
					continue
				}
				for _, y := range ev {
					if (y.kind == "forged" || y.kind == "forged-reply") && y.t > restored {
						e.violate("C13.undo", "forged-frame-after-restore", fmt.Sprintf("forged frame to %s at %v after the restoring frame at %v (events: %s)", mac, y.t, restored, evString(ev)))
					}
				}
				e.probe("undo_checked")
			case "start":
				// periodic while continuously hunted: from the return of this StartHunt to the next StopHunt
				end := tClose
				endSeq := closeInv
				for _, y := range ev[i+1:] {
					if y.kind == "stop-inv" {
						end, endSeq = y.t, y.seq
						break
					}
				}
				first := true
				already := false
				for _, y := range ev[:i] {
					if y.kind == "start" {
						already = true
					}
					if y.kind == "stop-inv" {
						already = false
					}
				}
				if already {
					continue // a repeated StartHunt starts nothing
				}
				last := x.rec.TRet
				n := 0
				for _, y := range ev {
					if y.kind != "forged" || y.seq < x.rec.Inv || y.seq > endSeq {
						continue
					}
					n++
					gap := y.t - last
					if first && y.t > x.rec.TRet {
						e.violate("C13.period", "first-forged-frame-late", fmt.Sprintf("StartHunt(%s) returned at %v, first forged frame only at %v (events: %s)", mac, x.rec.TRet, y.t, evString(ev)))
					}
					first = false
					if gap > arpCycle {
						e.violate("C13.period", "gap-longer-than-one-cycle", fmt.Sprintf("hunted host %s got no forged frame for %v (at %v)", mac, gap, y.t))
					}
					last = y.t
				}
				if end-last > arpCycle {
					e.violate("C13.period", "gap-longer-than-one-cycle", fmt.Sprintf("hunted host %s got no forged frame for %v before %v (events: %s)", mac, end-last, end, evString(ev)))
				}
				// One loop sends one frame per cycle. A loop stopped less than a cycle before this
				// StartHunt may not have noticed yet: it finds the MAC in the list again, sends one
				// last frame, then sees its own stop signal and leaves - one extra frame per such
				// StopHunt, once, is not a second loop.
				max := int((end-x.rec.TInv)/arpCycle) + 1
				recentStops := 0
				for _, y := range ev[:i] {
					if y.kind == "stop-inv" && x.t-y.t <= arpCycle {
						recentStops++
					}
				}
				if n > max+recentStops {
					key := "more-than-one-frame-per-cycle"
					if recentStops > 0 {
						key += ":hunted-again-within-one-cycle-of-stophunt"
					}
					e.violateSoft("C13.rate", key, fmt.Sprintf("host %s got %d periodic forged frames in %v (at most %d for one loop; events: %s)", mac, n, end-x.rec.TInv, max, evString(ev)))
				}
				e.probe("period_checked")
			}
		}
		// L3: Close stops every loop
		for _, x := range ev {
			if (x.kind == "forged" || x.kind == "forged-reply") && x.seq > closeRet && x.t > tClose {
				e.violate("C13.close", "forged-frame-after-close", fmt.Sprintf("forged frame to %s at %v after Close returned at %v", mac, x.t, tClose))
			}
		}
	}
	// S3: probe rejects
	for _, f := range frames {
		if f.kind != "probe-reject" {
			continue
		}
		var mac fb.MAC
		copy(mac[:], f.dst[:])
		var cause *inRec
		for i := range inb {
			in := &inb[i]
			if in.Tag == "probe" && in.Seq < f.seq && in.F.ARP.SHA == f.dst && in.F.ARP.TPA == f.a.SPA {
				cause = in
			}
		}
		if cause == nil {
			e.violate("C13.probe", "reject-without-probe", fmt.Sprintf("probe-reject for %s sent to %s without a probe from it", f.a.SPA, f.dst))
			continue
		}
		// the offer in effect when the probe was processed: the last one made before the probe
		// was injected, or any made between the injection and the reject (the loop runs concurrently)
		var cands []netip.Addr
		var before netip.Addr
		for _, of := range offers[mac] {
			if of.seq < cause.Seq {
				before = of.ip
			} else if of.seq < f.seq {
				cands = append(cands, of.ip)
			}
		}
		cands = append(cands, before)
		justified := false
		for _, offer := range cands {
			if offer.IsValid() && offer.Is4() && offer != f.a.SPA && u.Home.Contains(f.a.SPA) {
				justified = true
			}
		}
		if !justified {
			key := "reject-without-outstanding-offer"
			switch {
			case !u.Home.Contains(f.a.SPA):
				key = "reject-outside-home-lan"
			case before.IsValid() && before == f.a.SPA && len(cands) == 1:
				key = "reject-of-the-offered-address"
			}
			e.violate("C13.probe", key, fmt.Sprintf("probe-reject for %s sent to %s; offers that could be in effect: %v (home %s)", f.a.SPA, f.dst, cands, u.Home))
		}
		e.probe("probe_reject_checked")
	}
	if len(leaked) > 0 && !stalls {
		e.violate("C13.close", "spoof-goroutine-alive-after-close", fmt.Sprintf("library goroutines still alive %v after Close: %v", 2*arpCycle, leaked))
	}
	e.res.FramesOut += len(c.out)
	e.res.Extra["arp_frames"] = int64(len(frames))
}

func evString(ev []arpEvent) string {
	s := ""
	for _, x := range ev {
		s += fmt.Sprintf("[%s seq=%d t=%v]", x.kind, x.seq, x.t)
	}
	if len(s) > 1500 {
		s = s[:1500] + "..."
	}
	return s
}
