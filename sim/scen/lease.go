package scen

import (
	"bytes"
	"fmt"
	"net"
	"net/netip"
	"sort"
	"strings"
	"time"

	yaml "gopkg.in/yaml.v2"

	"verif/sim/fb"
	"verif/sim/simrt"
	"verif/sim/world"
)

// ---- family "lease": C18, crash points and corruptions of the lease file ----

type binding struct {
	cid string
	mac string
	ip  netip.Addr
}

func (b binding) String() string { return fmt.Sprintf("(%x %x %s)", b.cid, b.mac, b.ip) }

// leaseFile mirrors the on-disk format for the harness's own reading of it.
type leaseFile struct {
	Leases []struct {
		ClientID []byte `yaml:"clientid"`
		State    int    `yaml:"state"`
		Addr     struct {
			MAC net.HardwareAddr `yaml:"mac"`
			IP  string           `yaml:"ip"`
		} `yaml:"addr"`
	} `yaml:"leases"`
}

// bindingsOf reads the allocated bindings out of a lease file; ok=false if it does not parse.
func bindingsOf(data []byte) (map[binding]bool, bool) {
	var lf leaseFile
	if err := yaml.Unmarshal(data, &lf); err != nil {
		return nil, false
	}
	out := map[binding]bool{}
	for _, l := range lf.Leases {
		ip, err := netip.ParseAddr(l.Addr.IP)
		if err != nil {
			ip = netip.Addr{}
		}
		out[binding{cid: string(l.ClientID), mac: string(l.Addr.MAC), ip: ip}] = true
	}
	return out, true
}

// illTyped tells the two kinds of damage apart. A damaged file that still is well-formed YAML of
// the right types merely says something else than the original (the library has no way to know:
// the recorded no-integrity-protection finding). One that an independent strict reading rejects
// (syntax error, or a scalar of the wrong type such as a letter inside a number) carries no
// binding at all: whatever the library loads from it is made up.
func illTyped(data []byte) string {
	if _, ok := bindingsOf(data); !ok {
		return "-of-ill-typed-file"
	}
	return ""
}

func sortedBindings(m map[binding]bool) []string {
	var s []string
	for b := range m {
		s = append(s, b.String())
	}
	sort.Strings(s)
	return s
}

type leaseRun struct {
	*exec
	d        *dhcpRun
	restarts int
	// the MACs the session reported as captured when the history ended (what an application
	// would save and re-apply; a capture flag the session lost on the way - the recorded C11
	// finding - is not resurrected here)
	capturedAtEnd []fb.MAC
}

func readLeaseFile() ([]byte, bool) {
	ok, data := simrt.FSCtl(simrt.FSCtlGet, 0, 0, 0, []byte(world.LeasePath))
	return data, ok == 1
}

// restartWith crashes (drops) whatever ran before, makes content the durable state of the
// lease file and constructs a new session and handler from it. It returns the bindings the
// new handler holds, read from the file the constructor rewrites from its loaded state.
func (l *leaseRun) restartWith(what string, content []byte, exists bool) (map[binding]bool, *world.World) {
	st := map[string][]byte{}
	if exists {
		st[world.LeasePath] = content
	}
	return l.restartFS(what, st)
}

// restartFS is restartWith for a complete disk state (every file).
func (l *leaseRun) restartFS(what string, files map[string][]byte) (map[binding]bool, *world.World) {
	simrt.FSCtl(simrt.FSCtlReset, 0, 0, 0, nil)
	names := make([]string, 0, len(files))
	for n := range files {
		names = append(names, n)
	}
	sort.Strings(names)
	for _, n := range names {
		simrt.FSCtl(simrt.FSCtlSet, 0, 0, 0, append(append([]byte(n), 0), files[n]...))
	}
	simrt.NetCtl(simrt.NetCtlReopen, 0)
	simrt.Trace("C18 restart " + what)
	l.restarts++
	// every other restart the application re-applies its capture list before the handlers are
	// created, as it would at boot: the leases are then loaded for MACs that are already captured
	var pre func(*world.World)
	if l.restarts%2 == 1 {
		macs := l.capturedAtEnd
		pre = func(w *world.World) {
			for _, m := range macs {
				w.S.Capture(world.HW(m))
			}
		}
		if len(macs) > 0 {
			l.probe("restart_with_captured_macs")
		}
	}
	w2, err := world.NewWith(l.sc.Cfg, pre)
	if err != nil {
		l.violate("C18.construct", "constructor-error", fmt.Sprintf("restart (%s): %v", what, err))
		return nil, nil
	}
	w2.Violation = l.w.Violation
	data, ok := readLeaseFile()
	if !ok {
		l.violate("C18.construct", "no-file-after-new", fmt.Sprintf("restart (%s): the constructor left no lease file", what))
		return nil, w2
	}
	b, ok := bindingsOf(data)
	if !ok {
		l.violate("C18.construct", "rewritten-file-unreadable", fmt.Sprintf("restart (%s): the file rewritten by the constructor does not parse: %q", what, firstBytes(data, 200)))
		return nil, w2
	}
	return b, w2
}

func firstBytes(b []byte, n int) []byte {
	if len(b) > n {
		return b[:n]
	}
	return b
}

func (l *leaseRun) shutdown(w2 *world.World) {
	if w2 == nil {
		return
	}
	if w2.DHCP != nil {
		w2.DHCP.Close()
	}
	w2.S.Close()
	w2.PollOut()
}

// checkDamaged: every binding loaded from a damaged file must be a binding of the reference
// (undamaged) content, inside the home subnet and with a client identifier.
func orderedBindings(m map[binding]bool) []binding {
	var l []binding
	for b := range m {
		l = append(l, b)
	}
	sort.Slice(l, func(i, j int) bool { return l[i].String() < l[j].String() })
	return l
}

func (l *leaseRun) checkDamaged(what, kind string, got, ref map[binding]bool) {
	for _, b := range orderedBindings(got) {
		switch {
		case b.cid == "":
			l.violate("C18.damaged", kind+":binding-without-client-id", fmt.Sprintf("%s: loaded binding %s has no client identifier", what, b))
		case !b.ip.IsValid() || !l.w.U.Home.Contains(b.ip):
			l.violate("C18.damaged", kind+":binding-outside-home-subnet", fmt.Sprintf("%s: loaded binding %s is outside %s", what, b, l.w.U.Home))
		case !ref[b]:
			// which field of which original binding was altered?
			field := "unrelated-to-any-original-binding"
			for _, r := range orderedBindings(ref) {
				switch {
				case r.mac == b.mac && r.ip == b.ip:
					field = "client-id-altered"
					if len(r.cid) != len(b.cid) { // an element lost or gained, not a changed value
						field = "client-id-length-changed"
					}
				case r.cid == b.cid && r.ip == b.ip:
					field = "mac-altered"
					if len(r.mac) != len(b.mac) {
						field = "mac-length-changed"
					}
				case r.cid == b.cid && r.mac == b.mac:
					field = "ip-altered"
				}
			}
			if kind == "truncated" && field != "unrelated-to-any-original-binding" {
				// a cut can only shorten the last binding of the file; which of its fields the
				// comparison blames depends on the neighbours, so it is one signature
				field = "last-binding-cut-short"
			}
			l.violateSoft("C18.damaged", kind+":binding-not-in-original:"+field, fmt.Sprintf("%s: loaded binding %s is not in the undamaged file %v", what, b, sortedBindings(ref)))
		}
	}
}

func runLease(e *exec) {
	w := e.w
	l := &leaseRun{exec: e}
	everAcked := map[binding]bool{}
	lastGood := map[binding]bool{} // bindings in the file after the last save that succeeded
	l.d = runDHCPCore(e, func(d *dhcpRun, ri *reqInfo, y netip.Addr) {
		everAcked[binding{cid: ri.cid, mac: string(ri.mac[:]), ip: y}] = true
		// C18: the binding just acknowledged, and every binding still held, is in the saved file
		data, ok := readLeaseFile()
		if d.lastSaveFailed() {
			// The save after this ACK met the injected disk error: the new binding may be missing,
			// but the save must not have damaged what an earlier, successful save had made durable.
			now := map[binding]bool{}
			if ok {
				now, _ = bindingsOf(data)
			}
			var held []netip.Addr
			for ip := range d.hold {
				held = append(held, ip)
			}
			sort.Slice(held, func(i, j int) bool { return held[i].Compare(held[j]) < 0 })
			for _, ip := range held {
				h := d.hold[ip]
				if d.now() >= h.until {
					continue
				}
				was, is := false, false
				for b := range lastGood {
					if b.cid == h.cid && b.ip == ip {
						was = true
					}
				}
				for b := range now {
					if b.cid == h.cid && b.ip == ip {
						is = true
					}
				}
				if was && !is {
					l.violateSoft("C18.save", "failed-save-lost-a-binding-that-was-durable", fmt.Sprintf("the save after ACK of %s failed (injected disk error), and binding (%x, %s), present in the file after the previous successful save and still held, is gone from it: %q", y, h.cid, ip, firstBytes(data, 300)))
				}
			}
			e.probe("failed_save_checked")
			return
		}
		if !ok {
			return
		}
		saved, ok := bindingsOf(data)
		if !ok {
			l.violate("C18.save", "saved-file-unreadable", fmt.Sprintf("file saved after ACK does not parse: %q", firstBytes(data, 200)))
			return
		}
		lastGood = saved
		var held []netip.Addr
		for ip := range d.hold {
			held = append(held, ip)
		}
		sort.Slice(held, func(i, j int) bool { return held[i].Compare(held[j]) < 0 })
		for _, ip := range held {
			h := d.hold[ip]
			if d.now() >= h.until { // the lease has run out: nothing is owed to its holder any more
				continue
			}
			found := false
			for b := range saved {
				if b.cid == h.cid && b.ip == ip {
					found = true
				}
			}
			if !found {
				key := "acknowledged-binding-not-saved"
				if d.rediscovered[h.cid] {
					key += ":holder-sent-discover-since-its-ack"
				}
				l.violateSoft("C18.save", key, fmt.Sprintf("after ACK of %s: binding (%x, %s) is held but absent from the saved file %v", y, h.cid, ip, sortedBindings(saved)))
			}
		}
	})
	if e.fatal {
		return
	}
	for _, c := range l.d.cl {
		if w.S.IsCaptured(world.HW(c.mac)) {
			l.capturedAtEnd = append(l.capturedAtEnd, c.mac)
		}
	}
	// ---- collect the history of disk mutations ----
	fsops := simrt.FSOps()
	final, haveFinal := readLeaseFile()
	hold := map[netip.Addr]holding{}
	for k, v := range l.d.hold {
		hold[k] = v
	}
	// crash: the history's session and handler are dropped; disk faults armed during the
	// history do not outlive it
	simrt.FSCtl(simrt.FSCtlFailWrite, 0, 0, 0, nil)
	simrt.FSCtl(simrt.FSCtlFailRead, 0, 0, 0, nil)
	l.shutdown(w)
	// ---- 0. intact restart: exactly the held bindings, behaviourally confirmed ----
	if haveFinal && !l.d.anySaveFailed {
		ref, refOK := bindingsOf(final)
		got, w2 := l.restartWith("intact file", final, true)
		if got != nil && refOK {
			for _, b := range orderedBindings(ref) {
				if !got[b] && w.U.Home.Contains(b.ip) && b.cid != "" {
					l.violate("C18.intact", "binding-lost", fmt.Sprintf("binding %s of the saved file is not held after restart: %v; file: %q", b, sortedBindings(got), final))
				}
			}
			for _, b := range orderedBindings(got) {
				if !ref[b] {
					l.violate("C18.intact", "binding-invented", fmt.Sprintf("binding %s held after restart is not in the saved file %v", b, sortedBindings(ref)))
				}
				if !everAcked[b] {
					l.violate("C18.intact", "binding-never-acknowledged", fmt.Sprintf("binding %s held after restart was never acknowledged in this history", b))
				}
			}
			if w2 != nil && !e.fatal {
				l.behaviour(w2, hold)
			}
		}
		l.shutdown(w2)
	}
	if e.fatal {
		return
	}

	// ---- 1. crash points: every prefix of every write, between every pair of disk operations ----
	// The disk state is rebuilt operation by operation; a crash during write k leaves data[:L]
	// in that file (truncate-then-write) with everything before fully applied. What is loaded
	// must consist of bindings of the lease file as it was before or as it is after operation k.
	nwrites := 0
	for _, op := range fsops {
		if op.Kind == "write" {
			nwrites++
		}
	}
	stride := 1
	if e.sc.Extra["quick"] == 1 && nwrites > 3 {
		stride = 5
	}
	points := 0
	state := map[string][]byte{}
	mainBindings := func(st map[string][]byte) map[binding]bool {
		b, ok := bindingsOf(st[world.LeasePath])
		if !ok || b == nil {
			return map[binding]bool{}
		}
		return b
	}
	cloneFS := func(st map[string][]byte) map[string][]byte {
		c := map[string][]byte{}
		for k, v := range st {
			c[k] = v
		}
		return c
	}
	wseen := 0
	for k, op := range fsops {
		before := mainBindings(state)
		after := cloneFS(state)
		switch op.Kind {
		case "write":
			after[op.Name] = op.Data
		case "rename":
			after[op.To] = after[op.Name]
			delete(after, op.Name)
		case "remove":
			delete(after, op.Name)
		}
		ref := mainBindings(after)
		for b := range before {
			ref[b] = true
		}
		if op.Kind == "write" {
			wseen++
			st := stride
			if wseen > nwrites-2 {
				st = 1 // the last rewrites are always enumerated completely
			}
			for L := 0; L < len(op.Data); L += st {
				torn := cloneFS(state)
				torn[op.Name] = op.Data[:L]
				what := fmt.Sprintf("disk op %d: write of %s torn at byte %d of %d (%q...)", k, op.Name, L, len(op.Data), tailBytes(op.Data[:L], 24))
				got, w2 := l.restartFS(what, torn)
				if got != nil {
					l.checkDamaged(what, "torn", got, ref)
				}
				l.shutdown(w2)
				points++
				if e.fatal {
					return
				}
			}
		}
		// the state after the operation completed (for a write this is also "crash right after")
		what := fmt.Sprintf("crash after disk op %d (%s %s)", k, op.Kind, op.Name)
		got, w2 := l.restartFS(what, after)
		if got != nil {
			l.checkDamaged(what, "between-ops", got, ref)
		}
		l.shutdown(w2)
		points++
		if e.fatal {
			return
		}
		state = after
	}
	got, w2 := l.restartFS("no file at all", map[string][]byte{})
	if got != nil && len(got) > 0 {
		l.violate("C18.damaged", "missing:bindings-from-nowhere", fmt.Sprintf("no lease file, but bindings %v after restart", sortedBindings(got)))
	}
	l.shutdown(w2)
	points++
	e.res.Extra["crash_points"] = int64(points)
	e.res.Extra["lease_writes"] = int64(nwrites)
	if stride == 1 {
		e.res.Extra["crash_points_exhaustive"] = 1
	}
	l.probe("crash_points_enumerated")

	// ---- 2. corruptions of the intact file ----
	if haveFinal && len(final) > 0 {
		ref, _ := bindingsOf(final)
		if ref == nil {
			ref = map[binding]bool{}
		}
		corr := 0
		subs := []byte{0x00, ' ', ':', '-', '\n', '#', 'x', '9'}
		thorough := e.sc.Extra["quick"] != 1
		for pos := 0; pos < len(final); pos++ {
			orig := final[pos]
			structural := strings.IndexByte(" :-\n[]{}\"'|>!&*#0123456789", orig) >= 0
			var cand []byte
			if thorough || structural {
				cand = subs
			} else if pos%3 == 0 {
				cand = []byte{orig ^ 0x01}
			}
			for _, c := range cand {
				if c == orig {
					continue
				}
				mut := append([]byte(nil), final...)
				mut[pos] = c
				got, w2 := l.restartWith(fmt.Sprintf("byte %d %q->%q", pos, orig, c), mut, true)
				if got != nil {
					l.checkDamaged(fmt.Sprintf("byte %d of the intact file changed %q->%q (line %q)", pos, orig, c, lineAt(final, pos)), "substitution"+illTyped(mut), got, ref)
				}
				l.shutdown(w2)
				corr++
				if e.fatal {
					return
				}
			}
		}
		// truncation of the intact file at every byte offset (a crash of whatever wrote it in place,
		// a full disk, a copy cut short): what loads is made of bindings of the intact file
		tstride := 1
		if !thorough && len(final) > 1500 {
			tstride = 2
		}
		for L := 0; L < len(final); L += tstride {
			got, w2 := l.restartWith(fmt.Sprintf("file truncated to %d of %d bytes", L, len(final)), final[:L], true)
			if got != nil {
				l.checkDamaged(fmt.Sprintf("the intact file truncated to %d of %d bytes (%q...)", L, len(final), tailBytes(final[:L], 24)), "truncated"+illTyped(final[:L]), got, ref)
			}
			l.shutdown(w2)
			corr++
			if e.fatal {
				return
			}
		}
		lines := bytes.SplitAfter(final, []byte("\n"))
		for i := range lines {
			var del, dup []byte
			for j, ln := range lines {
				if j != i {
					del = append(del, ln...)
				}
				dup = append(dup, ln...)
				if j == i {
					dup = append(dup, ln...)
				}
			}
			for which, mut := range [][]byte{del, dup} {
				name := []string{"deleted", "duplicated"}[which]
				got, w2 := l.restartWith(fmt.Sprintf("line %d %s", i, name), mut, true)
				if got != nil {
					l.checkDamaged(fmt.Sprintf("line %d (%q) %s", i, strings.TrimSpace(string(lines[i])), name), "line-"+name+illTyped(mut), got, ref)
				}
				l.shutdown(w2)
				corr++
				if e.fatal {
					return
				}
			}
		}
		e.res.Extra["corruptions"] = int64(corr)
		l.probe("corruptions_enumerated")
	}
	e.res.Extra["restarts"] = int64(l.restarts)
}

func tailBytes(b []byte, n int) []byte {
	if len(b) > n {
		return b[len(b)-n:]
	}
	return b
}

func lineAt(b []byte, pos int) string {
	s, e := pos, pos
	for s > 0 && b[s-1] != '\n' {
		s--
	}
	for e < len(b) && b[e] != '\n' {
		e++
	}
	return string(b[s:e])
}

// behaviour confirms the restarted handler's bindings through the protocol: a renewal from
// each holder is acknowledged with its address, and a new client asking for a held address is
// not offered it.
func (l *leaseRun) behaviour(w2 *world.World, hold map[netip.Addr]holding) {
	u := w2.U
	w2.StartLoop()
	simrt.Settle()
	w2.PollOut()
	var ips []netip.Addr
	for ip := range hold {
		ips = append(ips, ip)
	}
	sort.Slice(ips, func(i, j int) bool { return ips[i].Compare(ips[j]) < 0 })
	now := time.Duration(simrt.Now())
	for n, ip := range ips {
		h := hold[ip]
		if now >= h.until {
			continue
		}
		// reconstruct the holder's identity
		var mac fb.MAC
		cid := []byte(h.cid)
		if len(cid) == 7 && cid[0] == 1 {
			copy(mac[:], cid[1:])
		} else {
			copy(mac[:], cid)
			cid = nil
		}
		msg := fb.DHCP{Op: 1, XID: [4]byte{0xee, 0, 0, byte(n)}, CHAddr: mac, CIAddr: ip}
		msg.Options = append(msg.Options, fb.DHCPOpt{Code: 53, Data: []byte{3}})
		if cid != nil {
			msg.Options = append(msg.Options, fb.DHCPOpt{Code: 61, Data: cid})
		}
		frame := fb.Eth(u.MACs[world.MOwn], mac, 0x0800, fb.IPv4(ip, u.HostIP, 17, 64, 1, fb.UDP(68, 67, msg.Bytes())))
		w2.Inject(frame)
		simrt.Settle()
		acked := false
		for _, o := range w2.PollOut() {
			if o.F.DHCP != nil && o.F.DHCP.Op == 2 && o.F.DHCP.XID == msg.XID {
				if o.F.DHCP.MsgType == 5 && o.F.DHCP.YIAddr == ip {
					acked = true
				}
			}
		}
		if !acked {
			l.violate("C18.intact", "renewal-not-acknowledged-after-restart", fmt.Sprintf("after restart the renewal of %s by client %x was not acknowledged", ip, h.cid))
		}
		// a stranger asks for the held address
		smac := u.MACs[world.MCtl2]
		dmsg := fb.DHCP{Op: 1, XID: [4]byte{0xef, 0, 0, byte(n)}, CHAddr: smac}
		x := ip.As4()
		dmsg.Options = []fb.DHCPOpt{{Code: 53, Data: []byte{1}}, {Code: 50, Data: x[:]}}
		zero := netip.MustParseAddr("0.0.0.0")
		w2.Inject(fb.Eth(fb.Broadcast, smac, 0x0800, fb.IPv4(zero, netip.MustParseAddr("255.255.255.255"), 17, 64, 1, fb.UDP(68, 67, dmsg.Bytes()))))
		simrt.Settle()
		for _, o := range w2.PollOut() {
			if o.F.DHCP != nil && o.F.DHCP.Op == 2 && o.F.DHCP.XID == dmsg.XID && o.F.DHCP.YIAddr == ip {
				l.violate("C18.intact", "held-address-offered-after-restart", fmt.Sprintf("after restart %s, held by client %x, was offered to another client", ip, h.cid))
			}
		}
		l.probe("behaviour_probe")
	}
}
