// Package scen holds the scenario generators, executors and oracles of every property.
package scen

import (
	"fmt"
	"sort"

	"verif/sim/world"
)

// Op is one generated operation; fields are small integers so that shrinking is easy and
// replay files are explicit.
type Op struct {
	K string `json:"k"`
	M int    `json:"m,omitempty"`
	S int    `json:"s,omitempty"`
	I int    `json:"i,omitempty"`
	T int    `json:"t,omitempty"`
	O int    `json:"o,omitempty"`
	N int    `json:"n,omitempty"`
	D int    `json:"d,omitempty"`
	P int    `json:"p,omitempty"`
	X int    `json:"x,omitempty"`
}

func (o Op) String() string {
	return fmt.Sprintf("%s{m=%d s=%d i=%d t=%d o=%d n=%d d=%d p=%d x=%d}", o.K, o.M, o.S, o.I, o.T, o.O, o.N, o.D, o.P, o.X)
}

// Scenario is everything a run needs besides the choice tape.
type Scenario struct {
	Prop   string         `json:"prop"`
	Family string         `json:"family"`
	Seed   uint64         `json:"seed"`
	Cfg    world.Config   `json:"cfg"`
	Ops    []Op           `json:"ops"`
	Extra  map[string]int `json:"extra,omitempty"`
}

// Violation is one oracle failure.
type Violation struct {
	Oracle string `json:"oracle"` // e.g. C04.state
	Key    string `json:"key"`    // normalised detail used for signatures / known findings
	Detail string `json:"detail"`
	Step   int    `json:"step"`
}

func (v Violation) Sig() string { return v.Oracle + "|" + v.Key }

// Result is what the executor hands back through the kernel.
type Result struct {
	Violations []Violation      `json:"violations"`
	OpsRun     int              `json:"ops_run"`
	OpKinds    map[string]int   `json:"op_kinds"`
	Probes     map[string]int   `json:"probes"`
	States     []uint64         `json:"states"` // distinct state fingerprints seen
	Notes      []string         `json:"notes,omitempty"`
	Trace      []string         `json:"trace,omitempty"`
	FramesOut  int              `json:"frames_out"`
	FramesIn   int              `json:"frames_in"`
	Extra      map[string]int64 `json:"extra,omitempty"`
	Transcript []string         `json:"transcript,omitempty"`
}

// rng is splitmix64 for the generators (run-time choices come from the kernel tape instead).
type rng struct{ s uint64 }

func (r *rng) next() uint64 {
	r.s += 0x9e3779b97f4a7c15
	z := r.s
	z = (z ^ (z >> 30)) * 0xbf58476d1ce4e5b9
	z = (z ^ (z >> 27)) * 0x94d049bb133111eb
	return z ^ (z >> 31)
}
func (r *rng) n(n int) int {
	if n <= 1 {
		return 0
	}
	return int(r.next() % uint64(n))
}
func (r *rng) chance(num, den int) bool { return r.n(den) < num }
func (r *rng) pick(xs ...int) int       { return xs[r.n(len(xs))] }

// weighted picks an index according to weights.
func (r *rng) weighted(w []int) int {
	t := 0
	for _, x := range w {
		t += x
	}
	v := r.n(t)
	for i, x := range w {
		if v < x {
			return i
		}
		v -= x
	}
	return len(w) - 1
}

type exec struct {
	sc    Scenario
	w     *world.World
	res   Result
	step  int
	state map[uint64]bool
	trace bool
	fatal bool // an oracle failed in a way that makes the rest of the history meaningless
	// concurrent families: harness tasks serialise their (rare) writes to res through these
	lock, unlock func()
}

func newExec(sc Scenario) *exec {
	return &exec{sc: sc, state: map[uint64]bool{}, res: Result{OpKinds: map[string]int{}, Probes: map[string]int{}, Extra: map[string]int64{}}}
}

func (e *exec) violate(oracle, key, detail string) {
	if e.lock != nil {
		e.lock()
		defer e.unlock()
	}
	e.fatal = true
	if len(e.res.Violations) < 20 {
		e.res.Violations = append(e.res.Violations, Violation{Oracle: oracle, Key: key, Detail: detail, Step: e.step})
	}
}

// violateSoft records a violation after which the run's state is still meaningful, so the
// history continues (one record per signature and run).
func (e *exec) violateSoft(oracle, key, detail string) {
	if e.lock != nil {
		e.lock()
		defer e.unlock()
	}
	for _, v := range e.res.Violations {
		if v.Oracle == oracle && v.Key == key {
			return
		}
	}
	if len(e.res.Violations) < 20 {
		e.res.Violations = append(e.res.Violations, Violation{Oracle: oracle, Key: key, Detail: detail, Step: e.step})
	}
}

func (e *exec) probe(name string) {
	if e.lock != nil {
		e.lock()
		defer e.unlock()
	}
	e.res.Probes[name]++
}

func (e *exec) note(format string, a ...interface{}) {
	if len(e.res.Notes) < 50 {
		e.res.Notes = append(e.res.Notes, fmt.Sprintf(format, a...))
	}
}

func (e *exec) tr(format string, a ...interface{}) {
	if e.trace && len(e.res.Trace) < 4000 {
		e.res.Trace = append(e.res.Trace, fmt.Sprintf("step %d: ", e.step)+fmt.Sprintf(format, a...))
	}
}

func (e *exec) addState(h uint64) {
	if !e.state[h] {
		e.state[h] = true
	}
}

func (e *exec) finish() Result {
	for h := range e.state {
		e.res.States = append(e.res.States, h)
	}
	sort.Slice(e.res.States, func(i, j int) bool { return e.res.States[i] < e.res.States[j] })
	if len(e.res.States) > 4096 {
		e.res.States = e.res.States[:4096]
	}
	return e.res
}
