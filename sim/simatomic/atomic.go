// Package simatomic replaces sync/atomic in rewritten code: a yield hint, then the real operation.
package simatomic

import (
	"sync/atomic"
	"unsafe"

	"verif/sim/simrt"
)

type (
	Bool    = atomic.Bool
	Int32   = atomic.Int32
	Int64   = atomic.Int64
	Uint32  = atomic.Uint32
	Uint64  = atomic.Uint64
	Uintptr = atomic.Uintptr
	Value   = atomic.Value
)

// Pointer wraps atomic.Pointer (generic aliases are not available in this toolchain).
type Pointer[T any] struct{ atomic.Pointer[T] }

func y() { simrt.Y(-20) }

func AddInt32(a *int32, d int32) int32                 { y(); return atomic.AddInt32(a, d) }
func AddInt64(a *int64, d int64) int64                 { y(); return atomic.AddInt64(a, d) }
func AddUint32(a *uint32, d uint32) uint32             { y(); return atomic.AddUint32(a, d) }
func AddUint64(a *uint64, d uint64) uint64             { y(); return atomic.AddUint64(a, d) }
func AddUintptr(a *uintptr, d uintptr) uintptr         { y(); return atomic.AddUintptr(a, d) }
func LoadInt32(a *int32) int32                         { y(); return atomic.LoadInt32(a) }
func LoadInt64(a *int64) int64                         { y(); return atomic.LoadInt64(a) }
func LoadUint32(a *uint32) uint32                      { y(); return atomic.LoadUint32(a) }
func LoadUint64(a *uint64) uint64                      { y(); return atomic.LoadUint64(a) }
func LoadUintptr(a *uintptr) uintptr                   { y(); return atomic.LoadUintptr(a) }
func LoadPointer(a *unsafe.Pointer) unsafe.Pointer     { y(); return atomic.LoadPointer(a) }
func StoreInt32(a *int32, v int32)                     { y(); atomic.StoreInt32(a, v) }
func StoreInt64(a *int64, v int64)                     { y(); atomic.StoreInt64(a, v) }
func StoreUint32(a *uint32, v uint32)                  { y(); atomic.StoreUint32(a, v) }
func StoreUint64(a *uint64, v uint64)                  { y(); atomic.StoreUint64(a, v) }
func StoreUintptr(a *uintptr, v uintptr)               { y(); atomic.StoreUintptr(a, v) }
func StorePointer(a *unsafe.Pointer, v unsafe.Pointer) { y(); atomic.StorePointer(a, v) }
func SwapInt32(a *int32, v int32) int32                { y(); return atomic.SwapInt32(a, v) }
func SwapInt64(a *int64, v int64) int64                { y(); return atomic.SwapInt64(a, v) }
func SwapUint32(a *uint32, v uint32) uint32            { y(); return atomic.SwapUint32(a, v) }
func SwapUint64(a *uint64, v uint64) uint64            { y(); return atomic.SwapUint64(a, v) }
func SwapUintptr(a *uintptr, v uintptr) uintptr        { y(); return atomic.SwapUintptr(a, v) }
func SwapPointer(a *unsafe.Pointer, v unsafe.Pointer) unsafe.Pointer {
	y()
	return atomic.SwapPointer(a, v)
}
func CompareAndSwapInt32(a *int32, o, n int32) bool { y(); return atomic.CompareAndSwapInt32(a, o, n) }
func CompareAndSwapInt64(a *int64, o, n int64) bool { y(); return atomic.CompareAndSwapInt64(a, o, n) }
func CompareAndSwapUint32(a *uint32, o, n uint32) bool {
	y()
	return atomic.CompareAndSwapUint32(a, o, n)
}
func CompareAndSwapUint64(a *uint64, o, n uint64) bool {
	y()
	return atomic.CompareAndSwapUint64(a, o, n)
}
func CompareAndSwapUintptr(a *uintptr, o, n uintptr) bool {
	y()
	return atomic.CompareAndSwapUintptr(a, o, n)
}
func CompareAndSwapPointer(a *unsafe.Pointer, o, n unsafe.Pointer) bool {
	y()
	return atomic.CompareAndSwapPointer(a, o, n)
}
func AndInt32(a *int32, m int32) int32     { y(); return atomic.AndInt32(a, m) }
func AndUint32(a *uint32, m uint32) uint32 { y(); return atomic.AndUint32(a, m) }
func OrInt32(a *int32, m int32) int32      { y(); return atomic.OrInt32(a, m) }
func OrUint32(a *uint32, m uint32) uint32  { y(); return atomic.OrUint32(a, m) }
