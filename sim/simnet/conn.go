// Package simnet is the net.PacketConn handed to Config.Conn: every read and write goes to
// the simulator kernel.
package simnet

import (
	"errors"
	"net"
	"time"

	"verif/sim/simrt"
)

type tempErr struct{}

func (tempErr) Error() string   { return "simnet: temporary error (ENOBUFS)" }
func (tempErr) Timeout() bool   { return false }
func (tempErr) Temporary() bool { return true }

// ErrPermanent is the injected non-temporary I/O error.
var ErrPermanent = errors.New("simnet: permanent i/o error")

type Conn struct{}

func (Conn) ReadFrom(b []byte) (int, net.Addr, error) {
	data, code := simrt.NetRead()
	switch code {
	case 0:
		n := copy(b, data)
		return n, nil, nil
	case 1:
		return 0, nil, tempErr{}
	case 2:
		return 0, nil, ErrPermanent
	default:
		return 0, nil, net.ErrClosed
	}
}

func (Conn) WriteTo(b []byte, addr net.Addr) (int, error) {
	switch simrt.NetWrite(b) {
	case 0:
		return len(b), nil
	case 1:
		return 0, tempErr{}
	case 2:
		return 0, ErrPermanent
	default:
		return 0, net.ErrClosed
	}
}

func (Conn) Close() error                       { simrt.NetClose(); return nil }
func (Conn) LocalAddr() net.Addr                { return nil }
func (Conn) SetDeadline(t time.Time) error      { return nil }
func (Conn) SetReadDeadline(t time.Time) error  { return nil }
func (Conn) SetWriteDeadline(t time.Time) error { return nil }
