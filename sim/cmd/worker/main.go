// worker executes exactly one simulated run and prints a JSON report.
package main

import (
	"encoding/json"
	"flag"
	"fmt"
	"os"
	"os/exec"
	"runtime/pprof"
	"strings"
	"syscall"

	"verif/sim/scen"
	"verif/sim/simrt"
)

// Report is the worker's output.
type Report struct {
	Scenario  scen.Scenario    `json:"scenario"`
	Status    string           `json:"status"`
	Result    *scen.Result     `json:"result,omitempty"`
	PanicText string           `json:"panic_text,omitempty"`
	PanicTask string           `json:"panic_task,omitempty"`
	Deadlock  string           `json:"deadlock,omitempty"`
	HangAt    string           `json:"hang_at,omitempty"`
	Steps     int64            `json:"steps"`
	Switches  int64            `json:"switches"`
	VirtualNS int64            `json:"virtual_ns"`
	TraceHash string           `json:"trace_hash"`
	SchedHash string           `json:"sched_hash"`
	Tape      []uint32         `json:"tape,omitempty"`
	TapeLen   int              `json:"tape_len"`
	Probes    map[string]int64 `json:"probes,omitempty"`
	Faults    map[string]int64 `json:"faults,omitempty"`
	Trace     []string         `json:"trace,omitempty"`
	TasksEnd  string           `json:"tasks_end,omitempty"`
	MaxTasks  int              `json:"max_tasks"`
}

// ReplayFile is the on-disk replay format.
type ReplayFile struct {
	Property  string        `json:"property"`
	Format    int           `json:"format"`
	Scenario  scen.Scenario `json:"scenario"`
	Tape      []uint32      `json:"tape"`
	Signature string        `json:"signature"`
	Trace     []string      `json:"trace,omitempty"`
	Detail    string        `json:"detail,omitempty"`
}

func main() {
	prop := flag.String("prop", "", "property id")
	family := flag.String("family", "", "scenario family")
	seed := flag.Uint64("seed", 1, "seed")
	tier := flag.String("tier", "quick", "quick|thorough")
	replay := flag.String("replay", "", "replay file (scenario + tape)")
	scfile := flag.String("scenario", "", "scenario file (explicit scenario, tape from seed unless -tapefile)")
	withTape := flag.Bool("tape", false, "include the consumed tape in the report")
	trace := flag.Bool("trace", false, "include full traces")
	outFD := flag.Int("outfd", 1, "file descriptor for the report")
	sites := flag.String("sites", "", "simgen sites.json")
	flag.Parse()

	// the library prints a lot: send fds 1 and 2 to /dev/null, keep the report fd
	rfd := *outFD
	if rfd == 1 || rfd == 2 {
		nfd, err := syscall.Dup(rfd)
		if err != nil {
			fmt.Fprintln(os.Stderr, "dup:", err)
			os.Exit(2)
		}
		rfd = nfd
	}
	simrt.SetDiagFD(rfd)
	if dn, err := syscall.Open("/dev/null", syscall.O_WRONLY, 0); err == nil {
		syscall.Dup2(dn, 1)
		if os.Getenv("WORKER_STDERR") == "" {
			syscall.Dup2(dn, 2)
		}
	}
	out := os.NewFile(uintptr(rfd), "report")

	if *sites != "" {
		if b, err := os.ReadFile(*sites); err == nil {
			var l []scen.Site
			if json.Unmarshal(b, &l) == nil {
				for _, x := range l {
					scen.Sites[x.ID] = x
				}
			}
		}
	}
	var sc scen.Scenario
	var tape []uint32
	useTape := false
	switch {
	case *replay != "":
		b, err := os.ReadFile(*replay)
		if err != nil {
			fmt.Fprintln(out, "SIMRT-FATAL: read replay:", err)
			os.Exit(2)
		}
		var rf ReplayFile
		if err := json.Unmarshal(b, &rf); err != nil {
			fmt.Fprintln(out, "SIMRT-FATAL: parse replay:", err)
			os.Exit(2)
		}
		sc, tape, useTape = rf.Scenario, rf.Tape, true
	case *scfile != "":
		b, err := os.ReadFile(*scfile)
		if err != nil {
			fmt.Fprintln(out, "SIMRT-FATAL: read scenario:", err)
			os.Exit(2)
		}
		if err := json.Unmarshal(b, &sc); err != nil {
			fmt.Fprintln(out, "SIMRT-FATAL: parse scenario:", err)
			os.Exit(2)
		}
	default:
		sc = scen.Generate(*prop, *family, *seed, *tier)
	}

	if pf := os.Getenv("WORKER_CPUPROFILE"); pf != "" {
		if f, err := os.Create(pf); err == nil {
			pprof.StartCPUProfile(f)
			defer pprof.StopCPUProfile()
		}
	}
	o := simrt.Run(scen.KernelConfig(sc, tape, useTape, *trace), scen.Driver(sc, *trace))
	rep := Report{Scenario: sc, Status: o.Status, PanicText: o.PanicText, PanicTask: o.PanicTask, Deadlock: o.Deadlock,
		Steps: o.Steps, Switches: o.Switches, VirtualNS: o.VirtualNS, TraceHash: fmt.Sprintf("%016x", o.TraceHash),
		SchedHash: fmt.Sprintf("%016x", o.SchedHash), TapeLen: len(o.Tape), Probes: o.Probes, Faults: o.Faults,
		TasksEnd: o.TasksAtEnd, MaxTasks: o.MaxTasks}
	if o.Status == simrt.StatusLivelock {
		// name the loop by the busiest library task: the function of its last synchronisation
		// site, else the function that started it
		for i, h := range o.HotTasks {
			last, gosite := scen.Sites[int(h.LastSite)], scen.Sites[int(h.GoSite)]
			rep.Deadlock += fmt.Sprintf("\n  task %d kind=%d steps=%d last site: %s %s in %s; started in %s", h.ID, h.Kind, h.Steps, last.Kind, last.Pos, last.Func, gosite.Func)
			if i == 0 { // the busiest task names the loop
				if h.ID == o.DumpTask {
					rep.HangAt = innermostLibraryFrame(o.PanicText)
				}
				if rep.HangAt != "" {
				} else if last.Func != "" {
					rep.HangAt = last.Func
				} else if h.Kind == 0 && gosite.Func != "" {
					rep.HangAt = gosite.Func
				}
			}
		}
		if rep.HangAt == "" {
			rep.HangAt = innermostLibraryFrame(o.PanicText)
		}
		rep.Deadlock += "\n" + o.PanicText
		rep.PanicText = ""
	}
	if o.Status == simrt.StatusSpin {
		rep.HangAt, rep.PanicText = spinning(o.PanicText)
	}
	if *withTape {
		rep.Tape = o.Tape
	}
	if o.Status != simrt.StatusResult || *trace {
		rep.Trace = o.Trace
	}
	if o.Result != nil {
		var r scen.Result
		if err := json.Unmarshal(o.Result, &r); err == nil {
			rep.Result = &r
		}
	}
	if sc.Extra["transcript"] == 1 && sc.Extra["buf"] == 1 && rep.Result != nil && o.Status == simrt.StatusResult {
		differential(&rep, sc, o.Tape, *sites)
	}
	enc := json.NewEncoder(out)
	enc.Encode(rep)
	pprof.StopCPUProfile()
	os.Exit(0)
}

// innermostLibraryFrame names a stack by its outermost library function (the API entry point or
// the goroutine's top function): the innermost one varies from run to run within one loop.
func innermostLibraryFrame(stack string) string {
	fn := ""
	for _, l := range strings.Split(stack, "\n") {
		l = strings.TrimSpace(l)
		if strings.HasPrefix(l, "github.com/irai/packet") {
			fn = l
			if i := strings.LastIndex(l, "("); i > 0 {
				fn = l[:i]
			}
		}
	}
	return fn
}

// spinning picks, from a dump of all goroutines, the one that is burning CPU inside the library
// and returns its innermost library function and its stack.
func spinning(dump string) (fn, stack string) {
	for _, g := range strings.Split(dump, "\n\n") {
		head := g
		if i := strings.Index(g, "\n"); i >= 0 {
			head = g[:i]
		}
		if !strings.Contains(head, "[running]") && !strings.Contains(head, "[runnable]") {
			continue
		}
		if strings.Contains(g, "simrt.spinWatch") || !strings.Contains(g, "github.com/irai/packet") {
			continue
		}
		fn = innermostLibraryFrame(g)
		if len(g) > 6000 {
			g = g[:6000]
		}
		return fn, g
	}
	if len(dump) > 6000 {
		dump = dump[:6000]
	}
	return "", dump
}

// differential is the C10 check: the same scenario and the same tape are executed again in a
// child process whose packet loop hands every frame to the library in a fresh, never modified
// buffer. The two transcripts (notifications, emitted frames, final retained state) must be equal.
func differential(rep *Report, sc scen.Scenario, tape []uint32, sites string) {
	child := sc
	child.Extra = map[string]int{}
	for k, v := range sc.Extra {
		child.Extra[k] = v
	}
	child.Extra["buf"] = 0
	rf := ReplayFile{Property: sc.Prop, Format: 1, Scenario: child, Tape: tape}
	f, err := os.CreateTemp("", "c10-*.json")
	if err != nil {
		rep.Result.Violations = append(rep.Result.Violations, scen.Violation{Oracle: "infra.c10", Key: "tempfile", Detail: err.Error()})
		return
	}
	defer os.Remove(f.Name())
	json.NewEncoder(f).Encode(rf)
	f.Close()
	cmd := exec.Command(os.Args[0], "-replay", f.Name(), "-sites", sites)
	cmd.Env = os.Environ()
	outb, err := cmd.Output()
	if err != nil {
		rep.Result.Violations = append(rep.Result.Violations, scen.Violation{Oracle: "infra.c10", Key: "child", Detail: err.Error()})
		return
	}
	var cr Report
	if err := json.Unmarshal(outb, &cr); err != nil {
		rep.Result.Violations = append(rep.Result.Violations, scen.Violation{Oracle: "infra.c10", Key: "child-output", Detail: err.Error()})
		return
	}
	if cr.Status != rep.Status || cr.Result == nil {
		rep.Result.Violations = append(rep.Result.Violations, scen.Violation{Oracle: "C10.diff", Key: "run-status", Detail: fmt.Sprintf("shared scribbled buffer: %s; private buffers: %s %s", rep.Status, cr.Status, cr.PanicText)})
		return
	}
	a, b := rep.Result.Transcript, cr.Result.Transcript
	if rep.Result.Extra == nil {
		rep.Result.Extra = map[string]int64{}
	}
	rep.Result.Extra["transcript_lines"] = int64(len(a))
	n := len(a)
	if len(b) < n {
		n = len(b)
	}
	for i := 0; i <= n; i++ {
		if i == n {
			if len(a) != len(b) {
				rep.Result.Violations = append(rep.Result.Violations, scen.Violation{Oracle: "C10.diff", Key: "transcript-length", Detail: fmt.Sprintf("%d lines with the shared scribbled buffer, %d with private buffers", len(a), len(b))})
			}
			break
		}
		if a[i] != b[i] {
			w := strings.Fields(a[i])
			key := w[0]
			if w[0] == "state" && len(w) > 1 {
				key += ":" + w[1]
			}
			rep.Result.Violations = append(rep.Result.Violations, scen.Violation{Oracle: "C10.diff", Key: key, Detail: fmt.Sprintf("transcript line %d differs.\n  one shared receive buffer, scribbled over after every packet: %s\n  private immutable buffer per packet:                          %s", i, trunc(a[i], 900), trunc(b[i], 900))})
			break
		}
	}
	rep.Result.Transcript = nil
}

func trunc(s string, n int) string {
	if len(s) > n {
		return s[:n] + "..."
	}
	return s
}
