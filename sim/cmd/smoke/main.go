package main

import (
	"fmt"
	"io"
	"net"
	"net/netip"
	"os"
	"strconv"
	"time"

	"github.com/irai/packet"
	"github.com/irai/packet/fastlog"
	"verif/sim/simnet"
	"verif/sim/simrt"
)

func mac(s string) net.HardwareAddr { m, _ := net.ParseMAC(s); return m }

func ip4frame(src net.HardwareAddr, sip, dip netip.Addr) []byte {
	b := make([]byte, 14+20+8)
	copy(b[0:6], []byte{0xff, 0xff, 0xff, 0xff, 0xff, 0xff})
	copy(b[6:12], src)
	b[12], b[13] = 0x08, 0x00
	ip := b[14:]
	ip[0] = 0x45
	ip[2], ip[3] = 0, 28
	ip[8] = 64
	ip[9] = 17
	copy(ip[12:16], sip.AsSlice())
	copy(ip[16:20], dip.AsSlice())
	udp := ip[20:]
	udp[0], udp[1] = 0x30, 0x39
	udp[2], udp[3] = 0x30, 0x3a
	udp[4], udp[5] = 0, 8
	return b
}

func main() {
	seed, _ := strconv.ParseUint(os.Getenv("VERIF_SEED"), 10, 64)
	fastlog.DefaultIOWriter = io.Discard
	var log []string
	out := simrt.Run(simrt.Config{Seed: seed, PreemptN: 1, HintMax: 50, MaxSteps: 1_000_000}, func() {
		nic := &packet.NICInfo{
			HomeLAN4:    netip.MustParsePrefix("192.168.0.0/24"),
			HostAddr4:   packet.Addr{MAC: mac("02:00:00:00:00:01"), IP: netip.MustParseAddr("192.168.0.129")},
			RouterAddr4: packet.Addr{MAC: mac("02:00:00:00:00:02"), IP: netip.MustParseAddr("192.168.0.1")},
			HostLLA:     netip.MustParsePrefix("fe80::1/64"),
		}
		s, err := packet.Config{Conn: simnet.Conn{}, NICInfo: nic, ProbeDeadline: 2 * time.Minute, OfflineDeadline: 5 * time.Minute, PurgeDeadline: 61 * time.Minute}.NewSession("")
		if err != nil {
			panic(err)
		}
		simrt.GoHarness(1, func() {
			buf := make([]byte, packet.EthMaxSize)
			for {
				n, _, err := s.ReadFrom(buf)
				if err != nil {
					return
				}
				frame, err := s.Parse(buf[:n])
				if err != nil {
					continue
				}
				s.Notify(frame)
			}
		})
		simrt.GoHarness(2, func() {
			for {
				n, ok := simrt.Recv2(s.C)
				if !ok {
					return
				}
				simrt.Trace(fmt.Sprintf("notification %v online=%v", n.Addr.IP, n.Online))
			}
		})
		c1 := mac("02:00:00:00:01:01")
		simrt.NetInject(0, ip4frame(c1, netip.MustParseAddr("192.168.0.10"), netip.MustParseAddr("192.168.0.1")))
		simrt.Settle()
		h := s.FindIP(netip.MustParseAddr("192.168.0.10"))
		log = append(log, fmt.Sprintf("after frame: host=%v", h != nil && h.Online))
		for i := 0; i < 70; i++ {
			simrt.Sleep(int64(time.Minute))
			simrt.NetInject(0, ip4frame(mac("02:00:00:00:00:02"), netip.MustParseAddr("8.8.8.8"), netip.MustParseAddr("192.168.0.10")))
			simrt.Settle()
			h = s.FindIP(netip.MustParseAddr("192.168.0.10"))
			if i == 3 || i == 6 || i == 69 {
				log = append(log, fmt.Sprintf("minute %d: present=%v online=%v", i+1, h != nil, h != nil && h.Online))
			}
		}
		s.Close()
		simrt.Settle()
		log = append(log, "tasks:\n"+simrt.TaskInfo())
		b := ""
		for _, l := range log {
			b += l + "\n"
		}
		simrt.Result([]byte(b))
	})
	fmt.Printf("status=%s steps=%d switches=%d vtime=%v tracehash=%x schedhash=%x tape=%d\n", out.Status, out.Steps, out.Switches, time.Duration(out.VirtualNS), out.TraceHash, out.SchedHash, len(out.Tape))
	fmt.Print(string(out.Result))
	if out.Status != simrt.StatusResult {
		fmt.Println(out.PanicTask, out.PanicText, out.Deadlock)
		for _, l := range out.Trace {
			fmt.Println(l)
		}
	}
	for _, l := range out.Trace {
		if len(l) > 0 && os.Getenv("TRACE") != "" {
			fmt.Println(l)
		}
	}
}
