// vcheck is the driver of every check: it rewrites /repo's current tree (simgen), builds the
// worker, runs seeds in parallel worker processes (one simulated run per process), shrinks and
// double-replays violations, writes evidence and prints the verdict lines.
//
//	vcheck run <property>      (env VERIF_SEED, VERIF_TIER)
//	vcheck replay <file>
//	vcheck selftest            determinism self-test over all families
//
// exit 0: property held on everything explored (KNOWN-FINDING lines possible)
// exit 1: VIOLATION property=<id> replay=<path>
// exit 2: infrastructure trouble (build, rewrite, budget, watchdog, determinism)
package main

import (
	"bytes"
	"context"
	"encoding/json"
	"fmt"
	"os"
	"os/exec"
	"path/filepath"
	"sort"
	"strconv"
	"strings"
	"sync"
	"time"

	"verif/sim/scen"
)

const verifDir = "/verif"
const repoDir = "/repo"

type report struct {
	Scenario  scen.Scenario    `json:"scenario"`
	Status    string           `json:"status"`
	Result    *scen.Result     `json:"result,omitempty"`
	PanicText string           `json:"panic_text,omitempty"`
	PanicTask string           `json:"panic_task,omitempty"`
	Deadlock  string           `json:"deadlock,omitempty"`
	HangAt    string           `json:"hang_at,omitempty"`
	Steps     int64            `json:"steps"`
	Switches  int64            `json:"switches"`
	VirtualNS int64            `json:"virtual_ns"`
	TraceHash string           `json:"trace_hash"`
	SchedHash string           `json:"sched_hash"`
	Tape      []uint32         `json:"tape,omitempty"`
	TapeLen   int              `json:"tape_len"`
	Probes    map[string]int64 `json:"probes,omitempty"`
	Faults    map[string]int64 `json:"faults,omitempty"`
	Trace     []string         `json:"trace,omitempty"`
	TasksEnd  string           `json:"tasks_end,omitempty"`
	MaxTasks  int              `json:"max_tasks"`
	Races     []raceReport     `json:"races,omitempty"`
}

type replayFile struct {
	Property  string        `json:"property"`
	Format    int           `json:"format"`
	Scenario  scen.Scenario `json:"scenario"`
	Tape      []uint32      `json:"tape"`
	Signature string        `json:"signature"`
	Race      bool          `json:"race,omitempty"`
	Trace     []string      `json:"trace,omitempty"`
	Detail    string        `json:"detail,omitempty"`
	RepoTree  string        `json:"repo_tree,omitempty"`
}

type violation struct {
	Oracle string
	Key    string
	Detail string
	Step   int
}

func (v violation) sig() string { return v.Oracle + "|" + v.Key }

type knownFinding struct {
	Property  string `json:"property"`
	Signature string `json:"signature"`
	What      string `json:"what"`
}

type knownFile struct {
	Known []knownFinding `json:"known"`
	Fixed []string       `json:"fixed"`
}

func die(code int, format string, a ...interface{}) {
	fmt.Fprintf(os.Stderr, "vcheck: "+format+"\n", a...)
	fmt.Printf("vcheck: "+format+"\n", a...)
	os.Exit(code)
}

type builder struct {
	scratch string
	overlay string
	worker  string
	workerR string
}

func goEnv() []string {
	env := os.Environ()
	env = append(env, "GOFLAGS=-mod=mod", "GOPROXY=off", "GOSUMDB=off", "GOTOOLCHAIN=local", "CGO_ENABLED=1")
	return env
}

func run(dir string, env []string, name string, args ...string) (string, error) {
	cmd := exec.Command(name, args...)
	cmd.Dir = dir
	cmd.Env = env
	var buf bytes.Buffer
	cmd.Stdout = &buf
	cmd.Stderr = &buf
	err := cmd.Run()
	return buf.String(), err
}

// build rewrites the current tree and builds the worker(s). Any failure is exit 2.
func build(needRace bool, needPlain bool) *builder {
	scratch, err := os.MkdirTemp("", "vcheck-")
	if err != nil {
		die(2, "mkdtemp: %v", err)
	}
	b := &builder{scratch: scratch}
	gen := filepath.Join(scratch, "gen")
	simgen := filepath.Join(verifDir, "bin", "simgen")
	if _, err := os.Stat(simgen); err != nil {
		if out, err := run(filepath.Join(verifDir, "simgen"), goEnv(), "go", "build", "-o", simgen, "."); err != nil {
			b.cleanup()
			die(2, "building simgen failed: %v\n%s", err, out)
		}
	}
	if out, err := run(verifDir, goEnv(), simgen, "-repo", repoDir, "-out", gen); err != nil {
		b.cleanup()
		die(2, "simgen failed (the tree does not rewrite/type-check): %v\n%s", err, out)
	}
	b.overlay = filepath.Join(gen, "overlay.json")
	simDir := filepath.Join(verifDir, "sim")
	var wg sync.WaitGroup
	var e1, e2 error
	var o1, o2 string
	if needPlain {
		b.worker = filepath.Join(scratch, "worker")
		wg.Add(1)
		go func() {
			defer wg.Done()
			o1, e1 = run(simDir, goEnv(), "go", "build", "-tags", "verif", "-overlay", b.overlay, "-o", b.worker, "./cmd/worker")
		}()
	}
	if needRace {
		b.workerR = filepath.Join(scratch, "worker_race")
		wg.Add(1)
		go func() {
			defer wg.Done()
			o2, e2 = run(simDir, goEnv(), "go", "build", "-race", "-tags", "verif", "-overlay", b.overlay, "-o", b.workerR, "./cmd/worker")
		}()
	}
	wg.Wait()
	if e1 != nil {
		b.cleanup()
		die(2, "building the worker from the rewritten tree failed: %v\n%s", e1, o1)
	}
	if e2 != nil {
		b.cleanup()
		die(2, "building the race worker from the rewritten tree failed: %v\n%s", e2, o2)
	}
	return b
}

func (b *builder) cleanup() {
	if b.scratch != "" {
		os.RemoveAll(b.scratch)
	}
}

type job struct {
	family string
	seed   uint64
	race   bool
	// explicit replay
	replay *replayFile
	procs  int
}

type outcome struct {
	job    job
	rep    *report
	err    string // infrastructure problem
	wall   time.Duration
	stderr string
}

var tmpCounter int64
var tmpMu sync.Mutex

func (b *builder) tmpName(prefix string) string {
	tmpMu.Lock()
	tmpCounter++
	n := tmpCounter
	tmpMu.Unlock()
	return filepath.Join(b.scratch, fmt.Sprintf("%s-%d", prefix, n))
}

// runWorker executes one simulated run in a fresh process.
func (b *builder) runWorker(prop, tier string, j job, trace bool, tape bool) outcome {
	bin := b.worker
	if j.race {
		bin = b.workerR
	}
	args := []string{"-prop", prop, "-tier", tier, "-sites", filepath.Join(b.scratch, "gen", "sites.json")}
	var tmp string
	if j.replay != nil {
		tmp = b.tmpName("replay") + ".json"
		data, _ := json.Marshal(j.replay)
		os.WriteFile(tmp, data, 0o644)
		args = append(args, "-replay", tmp)
		defer os.Remove(tmp)
	} else {
		args = append(args, "-family", j.family, "-seed", strconv.FormatUint(j.seed, 10))
	}
	if trace {
		args = append(args, "-trace")
	}
	if tape {
		args = append(args, "-tape")
	}
	ctx, cancel := context.WithTimeout(context.Background(), 600*time.Second)
	defer cancel()
	cmd := exec.CommandContext(ctx, bin, args...)
	env := os.Environ()
	if j.procs > 0 {
		env = append(env, "GOMAXPROCS="+strconv.Itoa(j.procs))
	} else {
		env = append(env, "GOMAXPROCS=1") // one task runs at a time; more Ps only add wake-up latency
	}
	var raceLog string
	if j.race {
		raceLog = b.tmpName("race")
		env = append(env, "GORACE=halt_on_error=0 exitcode=0 history_size=3 log_path="+raceLog)
	}
	cmd.Env = env
	var so, se bytes.Buffer
	cmd.Stdout = &so
	cmd.Stderr = &se
	t0 := time.Now()
	err := cmd.Run()
	o := outcome{job: j, wall: time.Since(t0), stderr: se.String()}
	if ctx.Err() != nil {
		o.err = "watchdog: worker exceeded 600s wall clock"
		return o
	}
	if err != nil {
		o.err = fmt.Sprintf("worker failed: %v: %s %s", err, firstN(so.String(), 2000), firstN(se.String(), 2000))
		return o
	}
	var rep report
	if e := json.Unmarshal(so.Bytes(), &rep); e != nil {
		o.err = fmt.Sprintf("worker output is not a report: %v: %s", e, firstN(so.String(), 2000))
		return o
	}
	if j.race {
		files, _ := filepath.Glob(raceLog + ".*")
		for _, f := range files {
			data, _ := os.ReadFile(f)
			rep.Races = append(rep.Races, parseRaces(string(data))...)
			os.Remove(f)
		}
	}
	o.rep = &rep
	return o
}

func firstN(s string, n int) string {
	if len(s) > n {
		return s[:n]
	}
	return s
}

// violationsOf extracts the violations relevant to prop from a report.
var hangIsViolation = map[string]bool{"C09": true, "C18": true, "C19": true}

func violationsOf(prop string, rep *report) (vs []violation, infra string) {
	switch rep.Status {
	case "result", "kill":
	case "panic":
		key := "panic:" + normPanic(rep.PanicText)
		vs = append(vs, violation{Oracle: prop + ".panic", Key: key, Detail: rep.PanicTask + ": " + firstN(rep.PanicText, 3000)})
	case "deadlock":
		vs = append(vs, violation{Oracle: prop + ".deadlock", Key: "deadlock", Detail: rep.Deadlock})
	case "livelock", "spin":
		// A library call that never returns. Only the properties whose statement promises
		// termination (C09 "no execution deadlocks", C18 "neither panics nor hangs", C19 "return
		// ErrTimeout otherwise") turn it into a violation; elsewhere it stays infrastructure trouble.
		if !hangIsViolation[prop] || rep.HangAt == "" {
			return nil, fmt.Sprintf("run ended with status %q at %q (steps=%d): %s", rep.Status, rep.HangAt, rep.Steps, firstN(rep.Deadlock+rep.PanicText, 1500))
		}
		vs = append(vs, violation{Oracle: prop + ".hang", Key: rep.Status + "@" + strings.TrimPrefix(rep.HangAt, "github.com/irai/"), Detail: firstN(rep.Deadlock+rep.PanicText, 4000)})
		return vs, ""
	default:
		return nil, fmt.Sprintf("run ended with status %q (steps=%d): %s", rep.Status, rep.Steps, strings.Join(tail(rep.Trace, 15), " / "))
	}
	if rep.Result != nil {
		for _, v := range rep.Result.Violations {
			if strings.HasPrefix(v.Oracle, "infra.") {
				return nil, v.Oracle + ": " + v.Detail
			}
			if strings.HasPrefix(v.Oracle, prop+".") {
				vs = append(vs, violation{Oracle: v.Oracle, Key: v.Key, Detail: v.Detail, Step: v.Step})
			}
		}
	}
	if prop == "C09" {
		for _, r := range rep.Races {
			if r.Harness {
				return nil, "race report involving harness code: " + r.Key + "\n" + firstN(r.Text, 1500)
			}
			vs = append(vs, violation{Oracle: "C09.race", Key: r.Key, Detail: firstN(r.Text, 4000)})
		}
	}
	return vs, ""
}

func tail(s []string, n int) []string {
	if len(s) > n {
		return s[len(s)-n:]
	}
	return s
}

// normPanic keeps the panic message and the innermost library frame.
func normPanic(text string) string {
	lines := strings.Split(text, "\n")
	msg := lines[0]
	if len(msg) > 80 {
		msg = msg[:80]
	}
	fn := ""
	for _, l := range lines[1:] {
		l = strings.TrimSpace(l)
		if strings.HasPrefix(l, "github.com/irai/packet") {
			if i := strings.Index(l, "("); i > 0 {
				fn = l[:i]
			} else {
				fn = l
			}
			break
		}
	}
	return msg + "@" + fn
}

func loadKnown() knownFile {
	var k knownFile
	data, err := os.ReadFile(filepath.Join(verifDir, "known_findings.json"))
	if err == nil {
		json.Unmarshal(data, &k)
	}
	return k
}

func main() {
	if len(os.Args) < 2 {
		die(2, "usage: vcheck run <property> | replay <file> | selftest")
	}
	switch os.Args[1] {
	case "run":
		if len(os.Args) < 3 {
			die(2, "usage: vcheck run <property>")
		}
		os.Exit(cmdRun(os.Args[2]))
	case "replay":
		if len(os.Args) < 3 {
			die(2, "usage: vcheck replay <file>")
		}
		os.Exit(cmdReplay(os.Args[2]))
	case "selftest":
		os.Exit(cmdSelftest())
	case "warm":
		b := build(true, true)
		b.cleanup()
		fmt.Println("vcheck: build caches warm")
	default:
		die(2, "unknown command %q", os.Args[1])
	}
}

type budget struct {
	wall     time.Duration // exploration wall-clock budget
	maxRuns  int
	detSeeds int // seeds re-run for the determinism check
}

func budgets(prop, tier string) budget {
	if tier == "thorough" {
		return budget{wall: 20 * time.Minute, maxRuns: 2_000_000, detSeeds: 24}
	}
	return budget{wall: 50 * time.Second, maxRuns: 200_000, detSeeds: 6}
}

func envSeed() uint64 {
	s := os.Getenv("VERIF_SEED")
	if s == "" {
		return 1
	}
	v, err := strconv.ParseUint(s, 10, 64)
	if err != nil {
		iv, err2 := strconv.ParseInt(s, 10, 64)
		if err2 != nil {
			return 1
		}
		return uint64(iv)
	}
	return v
}

func envTier(def string) string {
	t := os.Getenv("VERIF_TIER")
	if t == "quick" || t == "thorough" {
		return t
	}
	return def
}

type agg struct {
	mu         sync.Mutex
	runs       int
	statuses   map[string]int
	virtualNS  int64
	steps      int64
	maxSteps   int64
	switches   int64
	probes     map[string]int64
	faults     map[string]int64
	opKinds    map[string]int
	scheds     map[string]bool
	traces     map[string]bool
	states     map[uint64]bool
	nontrivial int
	samples    []interface{}
	families   map[string]int
	otherProps map[string]int
	framesOut  int64
	framesIn   int64
	maxTasks   int
	raceRuns   int
	racePairs  map[string]int
	extra      map[string]int64
	infra      []string
	found      map[string]*foundV
	workerWall time.Duration
}

type foundV struct {
	v     violation
	job   job
	rep   *report
	count int
}

func newAgg() *agg {
	return &agg{statuses: map[string]int{}, probes: map[string]int64{}, faults: map[string]int64{}, opKinds: map[string]int{},
		scheds: map[string]bool{}, traces: map[string]bool{}, states: map[uint64]bool{}, families: map[string]int{},
		otherProps: map[string]int{}, racePairs: map[string]int{}, extra: map[string]int64{}, found: map[string]*foundV{}}
}

func (a *agg) add(prop string, o outcome) {
	a.mu.Lock()
	defer a.mu.Unlock()
	a.workerWall += o.wall
	if o.err != "" {
		if len(a.infra) < 5 {
			a.infra = append(a.infra, fmt.Sprintf("family=%s seed=%d: %s", o.job.family, o.job.seed, o.err))
		}
		return
	}
	rep := o.rep
	a.runs++
	a.statuses[rep.Status]++
	a.families[o.job.family]++
	a.virtualNS += rep.VirtualNS
	a.steps += rep.Steps
	if rep.Steps > a.maxSteps {
		a.maxSteps = rep.Steps
	}
	a.switches += rep.Switches
	if rep.MaxTasks > a.maxTasks {
		a.maxTasks = rep.MaxTasks
	}
	for k, v := range rep.Faults {
		a.faults[k] += v
	}
	for k, v := range rep.Probes {
		a.probes[k] += v
	}
	if o.job.race {
		a.raceRuns++
	}
	nontrivial := false
	if rep.Result != nil {
		for k, v := range rep.Result.Probes {
			a.probes[k] += int64(v)
			if v > 0 && k != "table_checks" {
				nontrivial = true
			}
		}
		for k, v := range rep.Result.OpKinds {
			a.opKinds[k] += v
		}
		for _, s := range rep.Result.States {
			a.states[s] = true
		}
		for k, v := range rep.Result.Extra {
			a.extra[k] += v
		}
		a.framesOut += int64(rep.Result.FramesOut)
		a.framesIn += int64(rep.Result.FramesIn)
		for _, v := range rep.Result.Violations {
			if !strings.HasPrefix(v.Oracle, prop+".") && !strings.HasPrefix(v.Oracle, "infra.") {
				a.otherProps[v.Oracle]++
				if os.Getenv("VCHECK_SURVEY") != "" && a.otherProps[v.Oracle] <= 2 {
					fmt.Printf("SURVEY-OTHER-EXAMPLE %s|%s family=%s seed=%d: %s\n", v.Oracle, v.Key, o.job.family, o.job.seed, firstN(v.Detail, 400))
				}
			}
		}
	}
	a.scheds[rep.SchedHash] = true
	if !a.traces[rep.TraceHash] {
		a.traces[rep.TraceHash] = true
		if nontrivial {
			a.nontrivial++
		}
	}
	vs, infra := violationsOf(prop, rep)
	if infra != "" {
		if len(a.infra) < 5 {
			a.infra = append(a.infra, fmt.Sprintf("family=%s seed=%d: %s", o.job.family, o.job.seed, infra))
		}
		return
	}
	for _, r := range rep.Races {
		a.racePairs[r.Key]++
	}
	for _, v := range vs {
		f := a.found[v.sig()]
		if f == nil {
			a.found[v.sig()] = &foundV{v: v, job: o.job, rep: rep, count: 1}
		} else {
			f.count++
			// prefer the smallest failing scenario as the starting point for shrinking
			if len(rep.Scenario.Ops) < len(f.rep.Scenario.Ops) {
				f.job, f.rep, f.v = o.job, rep, v
			}
		}
	}
	if len(a.samples) < 2 && rep.Result != nil && nontrivial && len(rep.Scenario.Ops) <= 14 {
		ops := []string{}
		for _, op := range rep.Scenario.Ops {
			ops = append(ops, op.String())
		}
		a.samples = append(a.samples, map[string]interface{}{
			"family": o.job.family, "seed": o.job.seed, "config": rep.Scenario.Cfg, "ops": ops, "status": rep.Status,
			"virtual_time": (time.Duration(rep.VirtualNS)).String(), "scheduling_points": rep.Steps, "context_switches": rep.Switches,
			"probes": rep.Result.Probes, "frames_out": rep.Result.FramesOut,
		})
	}
}

func propFamilies(prop string) []string {
	f := scen.Families[prop]
	if len(f) == 0 {
		die(2, "property %s has no registered scenario family", prop)
	}
	return f
}

func mixSeed(base uint64, i int, fam int) uint64 {
	z := base*0x9e3779b97f4a7c15 + uint64(i)*0xbf58476d1ce4e5b9 + uint64(fam)*0x94d049bb133111eb
	z ^= z >> 31
	z *= 0xd6e8feb86659fd93
	z ^= z >> 29
	return z & 0x7fffffffffffffff
}

func cmdRun(prop string) int {
	t0 := time.Now()
	tier := envTier("quick")
	base := envSeed()
	bud := budgets(prop, tier)
	if s := os.Getenv("VCHECK_WALL"); s != "" {
		if d, err := time.ParseDuration(s); err == nil {
			bud.wall = d
		}
	}
	fams := propFamilies(prop)
	needRace := scen.NeedsRace(prop)
	fmt.Printf("vcheck: property=%s tier=%s VERIF_SEED=%d families=%v\n", prop, tier, base, fams)
	b := build(needRace, true)
	defer b.cleanup()
	buildWall := time.Since(t0)
	fmt.Printf("vcheck: rewrite+build %.1fs\n", buildWall.Seconds())

	a := newAgg()
	nw := 28
	jobs := make(chan job, 64)
	var wg sync.WaitGroup
	for i := 0; i < nw; i++ {
		wg.Add(1)
		go func() {
			defer wg.Done()
			for j := range jobs {
				a.add(prop, b.runWorker(prop, tier, j, false, false))
			}
		}()
	}
	// determinism sample first: the same seed at different GOMAXPROCS must give identical logs
	detBad := determinism(b, prop, tier, fams, base, bud.detSeeds, needRace)
	if detBad != "" {
		close(jobs)
		wg.Wait()
		fmt.Println("vcheck: DETERMINISM FAILURE: " + detBad)
		return 2
	}
	fmt.Printf("vcheck: determinism sample ok (%d executions) at %.1fs\n", len(detSeen)*3, time.Since(t0).Seconds())
	knownSigs := map[string]bool{}
	for _, k := range loadKnown().Known {
		if k.Property == prop {
			knownSigs[k.Signature] = true
		}
	}
	deadline := time.Now().Add(bud.wall)
	raceEvery := scen.RaceEvery(prop)
	i := 0
	for time.Now().Before(deadline) && i < bud.maxRuns {
		for fi, f := range fams {
			j := job{family: f, seed: mixSeed(base, i, fi)}
			if needRace && raceEvery > 0 && i%raceEvery == 0 {
				j.race = true
			}
			jobs <- j
		}
		i++
		a.mu.Lock()
		unknownFound := 0
		for sg := range a.found {
			if !knownSigs[sg] {
				unknownFound++
			}
		}
		stop := (unknownFound > 0 && a.runs > 200 && os.Getenv("VCHECK_SURVEY") == "") || len(a.infra) >= 5
		a.mu.Unlock()
		if stop {
			break
		}
	}
	close(jobs)
	wg.Wait()
	exploreWall := time.Since(t0) - buildWall
	fmt.Printf("vcheck: exploration done at %.1fs (%d runs)\n", time.Since(t0).Seconds(), a.runs)

	if len(a.infra) > 0 {
		for _, s := range a.infra {
			fmt.Println("vcheck: INFRASTRUCTURE: " + s)
		}
		// Trouble in some runs does not erase a violation found (and about to be replayed twice)
		// in another: only when nothing unknown was found is the check itself what failed.
		unknownFound := false
		for sg := range a.found {
			if !knownSigs[sg] {
				unknownFound = true
			}
		}
		if !unknownFound || os.Getenv("VCHECK_SURVEY") != "" {
			writeEvidence(prop, tier, base, a, time.Since(t0), exploreWall, 0, nil, "infrastructure failure: "+a.infra[0])
			return 2
		}
	}

	if os.Getenv("VCHECK_SURVEY") != "" { // development aid: list every signature seen, no shrinking
		sigs := make([]string, 0, len(a.found))
		for s := range a.found {
			sigs = append(sigs, s)
		}
		sort.Strings(sigs)
		for _, s := range sigs {
			f := a.found[s]
			fmt.Printf("SURVEY %5d  %s\n        family=%s seed=%d ops=%d: %s\n", f.count, s, f.job.family, f.job.seed, len(f.rep.Scenario.Ops), firstN(f.v.Detail, 600))
		}
		for k, v := range a.otherProps {
			fmt.Printf("SURVEY-OTHER %5d %s\n", v, k)
		}
		fmt.Printf("vcheck: survey runs=%d\n", a.runs)
		return 0
	}
	// classify what was found
	known := loadKnown()
	var unknown []*foundV
	var knownHit []knownFinding
	sigs := make([]string, 0, len(a.found))
	for s := range a.found {
		sigs = append(sigs, s)
	}
	sort.Strings(sigs)
	for _, s := range sigs {
		f := a.found[s]
		matched := false
		for _, k := range known.Known {
			if k.Property == prop && k.Signature == s {
				matched = true
				knownHit = append(knownHit, k)
				break
			}
		}
		if !matched {
			unknown = append(unknown, f)
		}
	}
	// a listed finding that was not reproduced in this run is still announced (it is a finding,
	// not an alarm), so that the line is stable from run to run
	for _, k := range known.Known {
		if k.Property != prop {
			continue
		}
		hit := false
		for _, h := range knownHit {
			if h.Signature == k.Signature {
				hit = true
			}
		}
		note := ""
		if !hit {
			note = " (not reproduced in this run)"
		}
		fmt.Printf("KNOWN-FINDING: property=%s %s [%s]%s\n", prop, k.What, k.Signature, note)
	}
	code := 0
	var replayPaths []string
	// Minimising costs up to a hundred candidate runs per signature: the most frequent few are
	// minimised and replayed, the rest are listed with the seed that reproduces them.
	sort.SliceStable(unknown, func(i, j int) bool { return unknown[i].count > unknown[j].count })
	const maxMinimised = 4
	notReplayed := ""
	for i, f := range unknown {
		if i >= maxMinimised {
			fmt.Printf("vcheck: also seen (%d run(s), not minimised): %s family=%s seed=%d: %s\n", f.count, f.v.sig(), f.job.family, f.job.seed, firstN(f.v.Detail, 300))
			continue
		}
		path, ok, why := b.minimiseAndSave(prop, tier, f)
		if !ok {
			fmt.Printf("vcheck: violation %s did not replay deterministically: %s\n", f.v.sig(), why)
			if notReplayed == "" {
				notReplayed = why
			}
			continue
		}
		replayPaths = append(replayPaths, path)
		fmt.Printf("vcheck: %s: %s\n", f.v.sig(), firstN(f.v.Detail, 1500))
		fmt.Printf("VIOLATION property=%s replay=%s\n", prop, path)
		code = 1
	}
	if code == 0 && notReplayed != "" {
		// nothing could be confirmed by replay: that is trouble with the machinery, not a verdict
		writeEvidence(prop, tier, base, a, time.Since(t0), exploreWall, len(unknown), nil, "violation did not replay: "+notReplayed)
		return 2
	}
	writeEvidence(prop, tier, base, a, time.Since(t0), exploreWall, len(unknown), replayPaths, "")
	fmt.Printf("vcheck: property=%s runs=%d (%.0f runs/hour) virtual=%s violations=%d known=%d wall=%.1fs\n",
		prop, a.runs, float64(a.runs)/exploreWall.Hours(), time.Duration(a.virtualNS), len(unknown), len(knownHit), time.Since(t0).Seconds())
	return code
}

// determinism re-runs a sample of seeds three times (GOMAXPROCS 1, 4, 16) and compares the
// kernel's full event-log hash and the harness result.
func determinism(b *builder, prop, tier string, fams []string, base uint64, n int, race bool) string {
	type res struct {
		key string
		out [3]outcome
	}
	var mu sync.Mutex
	var bad string
	var wg sync.WaitGroup
	sem := make(chan struct{}, 16)
	for fi, f := range fams {
		for i := 0; i < n; i++ {
			for k, procs := range []int{1, 4, 16} {
				_ = k
				wg.Add(1)
				sem <- struct{}{}
				go func(f string, seed uint64, procs int) {
					defer wg.Done()
					defer func() { <-sem }()
					o := b.runWorker(prop, tier, job{family: f, seed: seed, procs: procs, race: race && procs == 4}, false, false)
					mu.Lock()
					defer mu.Unlock()
					key := fmt.Sprintf("%s/%d", f, seed)
					if o.err != "" {
						if bad == "" {
							bad = key + ": " + o.err
						}
						return
					}
					rj, _ := json.Marshal(o.rep.Result)
					sum := o.rep.TraceHash + "|" + o.rep.Status + "|" + string(rj)
					if prev, ok := detSeen[key]; ok {
						if prev != sum && bad == "" {
							bad = fmt.Sprintf("%s: two executions of one seed differ (GOMAXPROCS=%d): %s vs %s", key, procs, firstN(prev, 300), firstN(sum, 300))
						}
					} else {
						detSeen[key] = sum
					}
				}(f, mixSeed(base, 1_000_000+i, fi), procs)
			}
		}
	}
	wg.Wait()
	return bad
}

var detSeen = map[string]string{}

func writeEvidence(prop, tier string, seed uint64, a *agg, wall, explore time.Duration, nviol int, replays []string, problem string) {
	os.MkdirAll(filepath.Join(verifDir, "evidence"), 0o755)
	samples := a.samples
	if len(samples) == 0 {
		samples = []interface{}{map[string]interface{}{"note": "no small non-trivial run was sampled", "runs": a.runs}}
	}
	cov := map[string]interface{}{
		"evaluations":         a.runs,
		"distinct_nontrivial": a.nontrivial,
		"rule": "one evaluation = one simulated run (own OS process) of a scenario generated from (VERIF_SEED, index, family): configuration, operation list and the choice tape that decides every interleaving, select order, map order, timer tie and fault. " +
			"A run counts as distinct when its kernel event-log hash (every scheduling decision, timer, frame and trace line) was not seen before, and as non-trivial when at least one reach probe of the scenario fired (a rule branch, fault or oracle comparison actually exercised, not merely configured).",
		"samples":                      samples,
		"runs_per_hour":                float64(a.runs) / maxf(explore.Hours(), 1e-9),
		"simulated_time":               time.Duration(a.virtualNS).String(),
		"simulated_seconds":            float64(a.virtualNS) / 1e9,
		"scheduling_points":            a.steps,
		"max_scheduling_points_in_run": a.maxSteps,
		"context_switches":             a.switches,
		"distinct_schedules":           len(a.scheds),
		"distinct_schedule_measure":    "hash of the sequence of (task, last site) at every context switch",
		"distinct_states":              len(a.states),
		"distinct_state_measure":       "hash of the sorted model state at each oracle evaluation point (capped at 4096 per run)",
		"fault_kinds_fired":            a.faults,
		"probes":                       a.probes,
		"op_kinds":                     a.opKinds,
		"run_statuses":                 a.statuses,
		"families":                     a.families,
		"frames_in":                    a.framesIn,
		"frames_out_checked_by_refdec": a.framesOut,
		"max_concurrent_tasks":         a.maxTasks,
		"race_detector_runs":           a.raceRuns,
		"race_pairs_seen":              a.racePairs,
		"other_property_signals":       a.otherProps,
		"extra":                        a.extra,
		"determinism_check":            fmt.Sprintf("%d seed(s) per family executed 3x at GOMAXPROCS 1/4/16: identical event-log hash and result", len(detSeen)),
		"components_real": []string{"package packet (Parse, tables, purge, notify, ping, encoders, send paths)", "handlers/arp_spoofer", "handlers/dhcp4_spoofer (incl. yaml lease persistence)",
			"handlers/icmp_spoofer", "handlers/dns_naming (socket-free constructor)", "fastlog"},
		"components_stubbed": []string{"kernel socket -> simnet.Conn via Config.Conn", "OS clock, timers, goroutine scheduler -> simrt kernel (virtual clock, choice tape)", "file system -> simfs (in kernel)",
			"sync.Pool -> deterministic poisoning pool", "math/rand, crypto/rand -> tape", "fmt.Print* -> formatted and discarded", "dns_naming multicast sockets (VerifNew hook)"},
		"components_not_run": []string{"socketconn.go (AF_PACKET)", "nic.go OS discovery", "ReverseDNS / UPNP HTTP / ExecPing"},
		"exhaustive":         false,
	}
	if problem != "" {
		cov["problem"] = problem
	}
	if len(replays) > 0 {
		cov["replay_files"] = replays
	}
	ev := map[string]interface{}{
		"property_id": prop,
		"tier":        tier,
		"seed":        int64(seed & 0x7fffffffffffffff),
		"level":       scen.Level(prop),
		"coverage":    cov,
		"assumptions": []string{
			"the simulator's shims are legal behaviours of the Go runtime (DESIGN.md section 9); preemption happens at rewritten synchronisation points and yield hints only",
			"simulated LAN nodes are models of clients, not real stacks; code listed under components_not_run is outside the claim",
			"sampling, not enumeration: a clean batch is evidence, not proof",
		},
		"wall_s":     wall.Seconds(),
		"violations": nviol,
	}
	data, _ := json.MarshalIndent(ev, "", " ")
	os.WriteFile(filepath.Join(verifDir, "evidence", prop+".json"), data, 0o644)
}

func maxf(a, b float64) float64 {
	if a > b {
		return a
	}
	return b
}

func cmdReplay(path string) int {
	data, err := os.ReadFile(path)
	if err != nil {
		die(2, "read %s: %v", path, err)
	}
	var rf replayFile
	if err := json.Unmarshal(data, &rf); err != nil {
		die(2, "parse %s: %v", path, err)
	}
	b := build(rf.Race, !rf.Race)
	defer b.cleanup()
	o := b.runWorker(rf.Property, "quick", job{replay: &rf, race: rf.Race}, true, false)
	if o.err != "" {
		die(2, "replay failed to run: %s", o.err)
	}
	vs, infra := violationsOf(rf.Property, o.rep)
	if infra != "" {
		die(2, "replay: %s", infra)
	}
	for _, l := range o.rep.Trace {
		fmt.Println("  ", l)
	}
	if o.rep.Result != nil {
		for _, l := range o.rep.Result.Trace {
			fmt.Println("  ", l)
		}
	}
	for _, v := range vs {
		if v.sig() == rf.Signature {
			fmt.Printf("vcheck: reproduced %s: %s\n", v.sig(), firstN(v.Detail, 3000))
			fmt.Printf("VIOLATION property=%s replay=%s\n", rf.Property, path)
			return 1
		}
	}
	fmt.Printf("vcheck: replay of %s did not reproduce %s (found %d other violation(s))\n", path, rf.Signature, len(vs))
	return 0
}

func cmdSelftest() int {
	b := build(true, true)
	defer b.cleanup()
	base := envSeed()
	// every family once, under a property that runs it
	famProp := map[string]string{}
	var props []string
	for p := range scen.Families {
		props = append(props, p)
	}
	sort.Strings(props)
	for _, p := range props {
		for _, f := range scen.Families[p] {
			if _, ok := famProp[f]; !ok {
				famProp[f] = p
			}
		}
	}
	var fams []string
	for f := range famProp {
		fams = append(fams, f)
	}
	sort.Strings(fams)
	n := 16
	if s := os.Getenv("VCHECK_SELFTEST_SEEDS"); s != "" {
		if v, err := strconv.Atoi(s); err == nil {
			n = v
		}
	}
	for _, f := range fams {
		p := famProp[f]
		if bad := determinism(b, p, "quick", []string{f}, base, n, scen.NeedsRace(p)); bad != "" {
			fmt.Println("vcheck: DETERMINISM FAILURE: " + p + "/" + bad)
			return 2
		}
		fmt.Printf("vcheck: family %-9s ok (%d seeds x GOMAXPROCS 1/4/16)\n", f, n)
	}
	fmt.Printf("vcheck: selftest ok: %d (family, seed) pairs, each executed 3x in separate processes with identical event logs and results\n", len(detSeen))
	return 0
}
