package main

import (
	"os"
	"sort"
	"strings"
)

type raceReport struct {
	Key     string `json:"key"`
	Harness bool   `json:"harness"`
	Text    string `json:"text"`
}

// parseRaces splits the race detector's log into reports and normalises each to the unordered
// pair of innermost library functions.
func parseRaces(log string) []raceReport {
	var out []raceReport
	blocks := strings.Split(log, "WARNING: DATA RACE")
	for _, blk := range blocks[1:] {
		if i := strings.Index(blk, "=================="); i >= 0 {
			blk = blk[:i]
		}
		lines := strings.Split(blk, "\n")
		var funcs []string
		harness := false
		inAccess := false
		taken := false
		for i := 0; i < len(lines); i++ {
			l := lines[i]
			t := strings.TrimSpace(l)
			switch {
			case strings.HasPrefix(t, "Read at"), strings.HasPrefix(t, "Write at"), strings.HasPrefix(t, "Previous read at"), strings.HasPrefix(t, "Previous write at"),
				strings.HasPrefix(t, "Atomic read at"), strings.HasPrefix(t, "Atomic write at"), strings.HasPrefix(t, "Previous atomic read at"), strings.HasPrefix(t, "Previous atomic write at"):
				inAccess, taken = true, false
				continue
			case strings.HasPrefix(t, "Goroutine "), t == "":
				inAccess = false
				continue
			}
			if !inAccess || taken {
				continue
			}
			// frame: function line followed by file line
			if i+1 >= len(lines) {
				continue
			}
			file := strings.TrimSpace(lines[i+1])
			if !strings.HasPrefix(file, "/") {
				continue
			}
			fn := strings.TrimSuffix(t, "()")
			fn = strings.TrimPrefix(fn, "github.com/irai/")
			i++
			if strings.Contains(file, "/go-1.") || strings.Contains(file, "/src/runtime/") || strings.HasPrefix(fn, "runtime.") ||
				strings.Contains(file, "/usr/lib/go") || strings.Contains(file, "/opt/veriftools/") {
				continue // runtime / standard library frame
			}
			if strings.Contains(file, "/verif/sim/sim") { // shim frame: look further out
				continue
			}
			if strings.Contains(file, "/verif/") {
				if strings.Contains(fn, ".apiUser") {
					fn = "API user: " + fn[strings.Index(fn, ".apiUser")+1:] + " (harness code acting as an API user within the documented rules)"
				} else {
					harness = true
				}
			}
			funcs = append(funcs, fn)
			taken = true
		}
		for len(funcs) < 2 {
			funcs = append(funcs, "?")
		}
		pair := funcs[:2]
		sort.Strings(pair)
		out = append(out, raceReport{Key: raceKey(pair[0], pair[1]), Harness: harness, Text: strings.TrimSpace(blk)})
	}
	return out
}

// Two long-standing root causes in package packet produce races with an open-ended set of
// partner functions; their reports are keyed by the root-cause site alone so that one finding
// stays one finding however long the exploration runs. Every other race keeps both functions.
// raceAnchors maps a function that must appear on one side of a report to a root-cause key, so
// that a recorded finding is matched by its cause rather than by every pair it shows up in.
// Empty since the two root causes once listed here (onlineTransition and PrintTable logging
// without the row lock) were repaired in /repo: every report is keyed by its pair again.
var raceAnchors = []struct{ fn, key string }{}

func raceKey(a, b string) string {
	if os.Getenv("VCHECK_RAW_RACES") != "" { // development aid: per-pair keys, no root-cause anchors
		return a + " <-> " + b
	}
	for _, an := range raceAnchors {
		if a == an.fn || b == an.fn {
			return an.key + " <-> (any)"
		}
	}
	return a + " <-> " + b
}
