package main

import (
	"crypto/sha1"
	"encoding/json"
	"fmt"
	"os"
	"os/exec"
	"path/filepath"
	"strings"
	"time"

	"verif/sim/scen"
)

type shrinker struct {
	b      *builder
	prop   string
	tier   string
	sig    string
	race   bool
	runs   int
	maxRun int
	until  time.Time
	last   *report
	lastV  violation
}

// spent reports that the shrinker's budget of candidate runs or of time is used up.
func (s *shrinker) spent() bool { return s.runs >= s.maxRun || time.Now().After(s.until) }

func (s *shrinker) try(sc scen.Scenario, tape []uint32) bool {
	if s.spent() {
		return false
	}
	s.runs++
	rf := &replayFile{Property: s.prop, Format: 1, Scenario: sc, Tape: tape, Signature: s.sig, Race: s.race}
	// The schedule is exactly repeatable, but the race detector keeps a bounded, randomly evicted
	// access history: an identical execution does not report every race every time. Try a few times.
	attempts := 1
	if s.race {
		attempts = 3
	}
	for a := 0; a < attempts; a++ {
		o := s.b.runWorker(s.prop, s.tier, job{replay: rf, race: s.race}, false, false)
		if o.err != "" {
			return false
		}
		vs, infra := violationsOf(s.prop, o.rep)
		if infra != "" {
			return false
		}
		for _, v := range vs {
			if v.sig() == s.sig {
				s.last = o.rep
				s.lastV = v
				return true
			}
		}
	}
	return false
}

func withoutOps(ops []scen.Op, from, to int) []scen.Op {
	out := make([]scen.Op, 0, len(ops))
	out = append(out, ops[:from]...)
	out = append(out, ops[to:]...)
	return out
}

// minimiseAndSave shrinks the failing run (operations, then the schedule/fault tape), writes
// the replay file and replays it twice in fresh processes.
func (b *builder) minimiseAndSave(prop, tier string, f *foundV) (string, bool, string) {
	sig := f.v.sig()
	// 1. reproduce from the seed and capture the consumed tape
	var o outcome
	ok := false
	for a := 0; a < 4 && !ok; a++ {
		o = b.runWorker(prop, tier, job{family: f.job.family, seed: f.job.seed, race: f.job.race}, false, true)
		if o.err != "" {
			return "", false, "re-run failed: " + o.err
		}
		vs, _ := violationsOf(prop, o.rep)
		for _, v := range vs {
			if v.sig() == sig {
				ok = true
			}
		}
		if !f.job.race {
			break
		}
	}
	if !ok {
		return "", false, "the same seed did not reproduce the violation"
	}
	sc := o.rep.Scenario
	tape := o.rep.Tape
	s := &shrinker{b: b, prop: prop, tier: tier, sig: sig, race: f.job.race, maxRun: 500, until: time.Now().Add(100 * time.Second)}
	if !s.try(sc, tape) {
		return "", false, "replay with the recorded tape did not reproduce the violation"
	}
	// 2. does the all-zero tape (no preemption, sorted map order, no stall) reproduce it?
	if len(tape) > 0 && s.try(sc, nil) {
		tape = nil
	}
	// 3. delta-debug the operation list
	shrinkOps := func() {
		for chunk := (len(sc.Ops) + 1) / 2; chunk >= 1; chunk /= 2 {
			for i := 0; i+chunk <= len(sc.Ops) && !s.spent(); {
				cand := sc
				cand.Ops = withoutOps(sc.Ops, i, i+chunk)
				if s.try(cand, tape) {
					sc = cand
				} else {
					i += chunk
				}
			}
			if chunk == 1 {
				break
			}
		}
	}
	shrinkOps()
	// 4. tape: shortest prefix, then zero individual entries
	if len(tape) > 0 {
		lo, hi := 0, len(tape)
		for lo < hi && !s.spent() {
			mid := (lo + hi) / 2
			if s.try(sc, tape[:mid]) {
				hi = mid
			} else {
				lo = mid + 1
			}
		}
		if hi < len(tape) { // hi only ever moved to a prefix that reproduced
			tape = append([]uint32(nil), tape[:hi]...)
		}
		for blk := len(tape) / 2; blk >= 1; blk /= 2 {
			for i := 0; i+blk <= len(tape) && !s.spent(); i += blk {
				nz := false
				for _, v := range tape[i : i+blk] {
					if v != 0 {
						nz = true
					}
				}
				if !nz {
					continue
				}
				cand := append([]uint32(nil), tape...)
				for k := i; k < i+blk; k++ {
					cand[k] = 0
				}
				if s.try(sc, cand) {
					tape = cand
				}
			}
			if blk == 1 || s.spent() {
				break
			}
		}
		for len(tape) > 0 && tape[len(tape)-1] == 0 {
			tape = tape[:len(tape)-1]
		}
		shrinkOps()
	}
	// 5. final double replay in fresh processes at different GOMAXPROCS, with traces
	rf := &replayFile{Property: prop, Format: 1, Scenario: sc, Tape: tape, Signature: sig, Race: f.job.race}
	var detail string
	var trace []string
	for _, procs := range []int{1, 16} {
		hit := false
		var o outcome
		attempts := 1
		if f.job.race {
			attempts = 4 // see shrinker.try: the detector's report of one execution is not guaranteed
		}
		for a := 0; a < attempts && !hit; a++ {
			o = b.runWorker(prop, tier, job{replay: rf, race: f.job.race, procs: procs}, true, false)
			if o.err != "" {
				return "", false, "final replay failed: " + o.err
			}
			vs, infra := violationsOf(prop, o.rep)
			if infra != "" {
				return "", false, "final replay: " + infra
			}
			for _, v := range vs {
				if v.sig() == sig {
					hit = true
					detail = v.Detail
				}
			}
		}
		if !hit {
			return "", false, fmt.Sprintf("minimised file did not reproduce at GOMAXPROCS=%d", procs)
		}
		trace = nil
		for _, op := range sc.Ops {
			trace = append(trace, "op "+op.String())
		}
		if o.rep.Result != nil {
			trace = append(trace, o.rep.Result.Trace...)
		}
		trace = append(trace, tail(o.rep.Trace, 200)...)
	}
	rf.Detail = detail
	rf.Trace = trace
	rf.RepoTree = repoTree()
	os.MkdirAll(filepath.Join(verifDir, "replays"), 0o755)
	h := sha1.Sum([]byte(sig))
	path := filepath.Join(verifDir, "replays", fmt.Sprintf("%s-%x.json", prop, h[:5]))
	data, _ := json.MarshalIndent(rf, "", " ")
	if err := os.WriteFile(path, data, 0o644); err != nil {
		return "", false, err.Error()
	}
	fmt.Printf("vcheck: minimised to %d op(s), tape of %d value(s) in %d candidate runs\n", len(sc.Ops), len(tape), s.runs)
	return path, true, ""
}

func repoTree() string {
	out, err := exec.Command("git", "-C", repoDir, "rev-parse", "HEAD").Output()
	if err != nil {
		return ""
	}
	st, _ := exec.Command("git", "-C", repoDir, "status", "--porcelain").Output()
	s := strings.TrimSpace(string(out))
	if len(strings.TrimSpace(string(st))) > 0 {
		s += "+dirty"
	}
	return s
}
