package main

import (
	"fmt"
	"os"
	"time"

	"verif/sim/simrt"
	"verif/sim/simsync"
)

func main() {
	n := 200000
	t0 := time.Now()
	var mu simsync.RWMutex
	mode := os.Args[1]
	out := simrt.Run(simrt.Config{Seed: 1, PreemptN: 0, MaxSteps: 10_000_000}, func() {
		if mode == "tasks" {
			for i := 0; i < 8; i++ {
				simrt.GoHarness(1, func() { simrt.Sleep(1e15) })
			}
			for i := 0; i < 4; i++ {
				simrt.StartTimer(1e15, 0, false, func(int64) bool { return true })
			}
		}
		for i := 0; i < n/2; i++ {
			mu.RLock()
			mu.RUnlock()
		}
		simrt.Result(nil)
	})
	d := time.Since(t0)
	fmt.Println(out.Status, out.Steps, d, d/time.Duration(out.Steps))
}
