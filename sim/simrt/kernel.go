package simrt

import (
	"container/heap"
	"fmt"
	"hash/fnv"
	"os"
	"runtime"
	"sort"
	"strings"
	"sync/atomic"
	"syscall"
	"time"
)

// Config configures one simulated run.
type Config struct {
	Seed      uint64   // PRNG seed for the tape (ignored when Tape != nil)
	Tape      []uint32 // explicit tape (replay); past its end every choice is 0
	Replay    bool     // take choices from Tape
	PreemptN  int      // consider a switch at a scheduling point with probability 1/PreemptN (1 = always, 0 = never)
	HintMax   int      // yield-hint countdown drawn from [1,HintMax]; 0 = hints never preempt
	StallDen  int      // a runnable library task is stalled with probability 1/StallDen at a scheduling point (0 = never)
	MaxSteps  int64    // budget of scheduling points
	TraceFull bool     // keep the full event log (otherwise only its hash and a tail)
}

// Status of a finished run.
const (
	StatusResult   = "result"   // harness delivered a verdict
	StatusPanic    = "panic"    // a task panicked
	StatusDeadlock = "deadlock" // lock cycle or everything blocked with the driver waiting
	StatusKill     = "kill"     // library sent SIGTERM to itself (NIC watchdog)
	StatusBudget   = "budget"   // step budget exhausted (infrastructure)
	StatusIdle     = "idle"     // nothing left to run and no verdict (infrastructure)
	StatusLivelock = "livelock" // budget exhausted while one task had been running alone at one virtual instant for the last quarter of it
	StatusSpin     = "spin"     // a task burned CPU for seconds without reaching a scheduling point
)

// Outcome is what the kernel returns to the worker's main goroutine.
type Outcome struct {
	Status     string
	Result     []byte // harness verdict
	PanicText  string
	PanicTask  string
	Deadlock   string
	Steps      int64
	Switches   int64
	VirtualNS  int64
	Tape       []uint32
	TraceHash  uint64
	SchedHash  uint64 // hash over (task, site) at context switches only
	Trace      []string
	Probes     map[string]int64
	Faults     map[string]int64
	TasksAtEnd string
	MaxTasks   int
	HotTasks   []HotTask // StatusLivelock: the tasks that consumed the steps, busiest first
	DumpTask   int64     // StatusLivelock: the task whose stack is in PanicText (0 = none)
}

type tstate int

const (
	tsRunnable tstate = iota
	tsLock
	tsParked
	tsSleep
	tsNetRead
	tsSettle
	tsDone
)

func (s tstate) String() string {
	return [...]string{"runnable", "lock", "parked", "sleep", "netread", "settle", "done"}[s]
}

type ktask struct {
	id       int64
	ctx      *taskCtx
	kind     int // 0 library, 1 harness
	site     int64
	state    tstate
	pend     reply
	lockID   int64
	lockMode int64
	epoch    uint64
	wakeAt   int64
	lastSite int64
	held     map[int64]int // lock id -> count (both modes), for the wait-for graph
}

type lockState struct {
	writer   *ktask
	readers  map[*ktask]int
	nreaders int
	waitW    []*ktask
	waitR    []*ktask
}

type ktimer struct {
	id      int64
	when    int64
	period  int64
	seq     int64
	fd      *feederCtx
	index   int
	task    *ktask // sleep timers wake a task instead of a feeder
	inbound bool   // marks an inbound-frame due event
	active  bool
	auto    bool // close the feeder after a one-shot fire
	owner   *ktask
	missed  int // consecutive fires that found the channel still full
}

type timerHeap []*ktimer

func (h timerHeap) Len() int { return len(h) }
func (h timerHeap) Less(i, j int) bool {
	if h[i].when != h[j].when {
		return h[i].when < h[j].when
	}
	return h[i].seq < h[j].seq
}
func (h timerHeap) Swap(i, j int)       { h[i], h[j] = h[j], h[i]; h[i].index = i; h[j].index = j }
func (h *timerHeap) Push(x interface{}) { t := x.(*ktimer); t.index = len(*h); *h = append(*h, t) }
func (h *timerHeap) Pop() interface{} {
	old := *h
	n := len(old)
	t := old[n-1]
	old[n-1] = nil
	t.index = -1
	*h = old[:n-1]
	return t
}

type inFrame struct {
	due  int64
	seq  int64
	data []byte
}

type fsWrite struct {
	name   string
	data   []byte
	prev   []byte
	had    bool
	rename string // non-empty: this entry is rename(name -> rename)
	remove bool   // this entry is remove(name)
}

type kernel struct {
	winStart int64 // step at which the clock last moved or the harness last drove the scenario
	winNow   int64
	winOp    int64
	bkt      [2]map[int64]int64 // steps per task in the previous and the current quarter of the budget
	bktMarks [2]int64           // scenario-driver operations in them
	bktStart [2]int64
	winCount map[int64]int64 // steps per task since then
	cfg      Config
	tasks    []*ktask // live tasks only (finished ones are removed)
	ntask    int64    // ids handed out
	live     int
	locks    map[int64]*lockState
	tmrs     timerHeap
	byID     map[int64]*ktimer
	now      int64
	seq      int64
	epoch    uint64
	rng      uint64
	tape     []uint32
	tpos     int

	steps    int64
	switches int64
	out      Outcome
	ended    bool
	th       uint64 // trace hash (fnv-1a running)
	sh       uint64
	trace    []string
	probes   map[string]int64
	faults   map[string]int64
	deadline int64
	maxTasks int

	// network
	inq        []inFrame
	outq       []OutFrame
	outPos     int
	netClosed  bool
	rdErrTemp  int
	rdErrPerm  bool
	wrErrTemp  int
	wrErrPerm  bool
	netReader  *ktask
	inboundTmr int

	// disk
	files      map[string][]byte
	fsHist     []fsWrite
	fsWrites   int64
	fsReads    int64
	failWriteK int64
	failWriteC int64
	failWriteN int64
	failReadK  int64
}

const traceTail = 400

func (k *kernel) tr(format string, a ...interface{}) {
	s := fmt.Sprintf("%d t=%d ", k.seq, k.now) + fmt.Sprintf(format, a...)
	for i := 0; i < len(s); i++ {
		k.th ^= uint64(s[i])
		k.th *= 1099511628211
	}
	k.th ^= 0xff
	k.th *= 1099511628211
	if k.cfg.TraceFull || len(k.trace) < traceTail {
		k.trace = append(k.trace, s)
	} else {
		copy(k.trace, k.trace[1:])
		k.trace[len(k.trace)-1] = s
	}
}

func (k *kernel) next64() uint64 {
	k.rng += 0x9e3779b97f4a7c15
	z := k.rng
	z = (z ^ (z >> 30)) * 0xbf58476d1ce4e5b9
	z = (z ^ (z >> 27)) * 0x94d049bb133111eb
	return z ^ (z >> 31)
}

// choose draws a value in [0,n) from the tape. n<=1 consumes nothing.
func (k *kernel) choose(n int) int {
	if n <= 1 {
		return 0
	}
	var v uint32
	if k.cfg.Replay {
		if k.tpos < len(k.cfg.Tape) {
			v = k.cfg.Tape[k.tpos] % uint32(n)
		}
	} else {
		v = uint32(k.next64()>>33) % uint32(n)
	}
	k.tpos++
	k.tape = append(k.tape, v)
	return int(v)
}

// Run executes driver as task 1 under a fresh kernel and returns the outcome. It must be
// called once per process, from the main goroutine.
func Run(cfg Config, driver func()) Outcome {
	if cfg.MaxSteps == 0 {
		cfg.MaxSteps = 2_000_000
	}
	k := &kernel{cfg: cfg, locks: map[int64]*lockState{}, byID: map[int64]*ktimer{},
		probes: map[string]int64{}, faults: map[string]int64{}, files: map[string][]byte{}, winCount: map[int64]int64{},
		th: 14695981039346656037, sh: 14695981039346656037, rng: cfg.Seed}
	k.bkt[0], k.bkt[1] = map[int64]int64{}, map[int64]int64{}
	// driver task
	t := newTaskCtx()
	kt := &ktask{id: 1, ctx: t, kind: 1, state: tsRunnable, held: map[int64]int{}}
	k.tasks = append(k.tasks, kt)
	k.ntask = 1
	k.live = 1
	active = true
	cur = nil
	go func() {
		// the driver's first wake sets cur
		taskMain(t, driver)
	}()
	done := make(chan struct{})
	go func() {
		k.loop()
		close(done)
	}()
	spun := make(chan string, 1)
	go spinWatch(done, spun)
	select {
	case <-done:
	case stacks := <-spun:
		// The kernel goroutine is blocked waiting for the spinning task: its state is quiescent.
		k.out.Status = StatusSpin
		k.out.PanicText = stacks
	}
	active = false
	k.out.Steps = k.steps
	k.out.Switches = k.switches
	k.out.VirtualNS = k.now
	k.out.Tape = k.tape
	k.out.TraceHash = k.th
	k.out.SchedHash = k.sh
	k.out.Trace = k.trace
	k.out.Probes = k.probes
	k.out.Faults = k.faults
	k.out.MaxTasks = k.maxTasks
	k.out.TasksAtEnd = k.taskInfo()
	return k.out
}

func (k *kernel) readMsg() msg {
	semacquire(&ksema)
	m := mbox
	mbox = msg{}
	return m
}

func (k *kernel) wake(t *ktask) {
	r := t.pend
	t.pend = reply{}
	r.now = k.now
	if k.cfg.HintMax > 0 && t.kind == 0 {
		r.budget = int64(1 + k.choose(k.cfg.HintMax))
	}
	r.tid = t.id
	t.ctx.in = r
	semrelease(&t.ctx.sema, true, 0)
}

func (k *kernel) end(status string) {
	k.out.Status = status
	k.ended = true
}

func (k *kernel) loop() {
	var cur *ktask
	for !k.ended {
		next := k.pick(cur)
		if next == nil {
			return
		}
		if next != cur {
			k.switches++
			s := fmt.Sprintf("%d@%d;", next.id, next.lastSite)
			for i := 0; i < len(s); i++ {
				k.sh ^= uint64(s[i])
				k.sh *= 1099511628211
			}
			if cur != nil {
				k.tr("switch %d->%d", cur.id, next.id)
			}
		}
		k.wake(next)
		cur = next
		m := k.readMsg()
		k.steps++
		k.seq++
		atomic.StoreInt64(&stepBeat, k.steps)
		if k.now != k.winNow || m.op == opSettle || m.op == opNetInject || m.op == opNetCtl || m.op == opFSCtl {
			// the clock moved or the harness drove the scenario on: a new window
			k.winStart, k.winNow = k.steps, k.now
			k.winOp = m.op
			for id := range k.winCount {
				delete(k.winCount, id)
			}
		}
		k.winCount[cur.id]++
		// the same per task over fixed stretches of a quarter of the budget, whatever the clock does
		if mark := m.op == opSettle || m.op == opNetInject || m.op == opNetCtl || m.op == opFSCtl; mark {
			k.bktMarks[1]++
		}
		k.bkt[1][cur.id]++
		if k.steps%(k.cfg.MaxSteps/4+1) == 0 {
			k.bkt[0], k.bkt[1] = k.bkt[1], map[int64]int64{}
			k.bktMarks[0], k.bktMarks[1] = k.bktMarks[1], 0
			k.bktStart[0], k.bktStart[1] = k.bktStart[1], k.steps
		}
		if k.steps > k.cfg.MaxSteps {
			k.tr("step budget exhausted (%d steps since the clock moved or the driver acted, op %d)", k.steps-k.winStart, k.winOp)
			// The last quarter of the budget (or more) spent at one virtual instant without the
			// harness doing anything is a loop that will never end, not a long scenario.
			if k.steps-k.winStart >= k.cfg.MaxSteps/4 {
				if m.op == opExit || m.op == opPanic {
					cur.state = tsDone // its goroutine is gone: no stack to ask for
				}
				k.livelock(cur)
				return
			}
			// Or one task consumed a quarter or more of the last quarter to half of the budget (several
			// times what a whole run needs) while the scenario driver did nothing; the clock may
			// creep on through injected stalls.
			k.tr("driver operations in the last two quarters: %d+%d", k.bktMarks[0], k.bktMarks[1])
			if k.bktMarks[0]+k.bktMarks[1] == 0 && k.bktStart[1] > 0 {
				total, top, topID := int64(0), int64(0), int64(0)
				sum := map[int64]int64{}
				for _, b := range k.bkt {
					for id, n := range b {
						sum[id] += n
						total += n
					}
				}
				for id, n := range sum {
					if n > top || (n == top && id < topID) {
						top, topID = n, id
					}
				}
				k.tr("busiest task %d: %d of %d steps", topID, top, total)
				if top*4 >= total {
					k.winCount, k.winStart = sum, k.bktStart[0]
					if m.op == opExit || m.op == opPanic {
						cur.state = tsDone
					}
					k.livelock(cur)
					return
				}
			}
			k.end(StatusBudget)
			return
		}
		k.handle(cur, m)
	}
}

// HotTask describes a task that was busy while the run made no progress.
type HotTask struct {
	ID       int64
	Kind     int
	GoSite   int64
	LastSite int64
	Steps    int64
	Live     bool
}

// livelock ends the run: the busiest tasks are named, and the one holding the token hands over
// its stack.
func (k *kernel) livelock(cur *ktask) {
	for id, n := range k.winCount {
		h := HotTask{ID: id, Steps: n}
		for _, t := range k.tasks {
			if t.id == id {
				h.Kind, h.GoSite, h.LastSite, h.Live = t.kind, t.site, t.lastSite, true
			}
		}
		k.out.HotTasks = append(k.out.HotTasks, h)
	}
	sort.Slice(k.out.HotTasks, func(i, j int) bool {
		a, b := k.out.HotTasks[i], k.out.HotTasks[j]
		if a.Steps != b.Steps {
			return a.Steps > b.Steps
		}
		return a.ID < b.ID
	})
	if len(k.out.HotTasks) > 6 {
		k.out.HotTasks = k.out.HotTasks[:6]
	}
	k.out.Deadlock = fmt.Sprintf("no progress: the step budget ran out (virtual time %d) after %d scheduling points during which the scenario driver did not act and either the clock stood still or one task took a quarter or more of them; busiest tasks %+v", k.now, k.steps-k.winStart, k.out.HotTasks)
	if cur.state != tsDone && k.out.Status == "" {
		dumpReq = true
		cur.ctx.in = reply{}
		semrelease(&cur.ctx.sema, true, 0)
		semacquire(&ksema)
		k.out.DumpTask = cur.id
		k.out.PanicText = fmt.Sprintf("stack of task %d (holding the token when the budget ran out):\n%s", cur.id, hangDump)
	}
	k.end(StatusLivelock)
}

// stepBeat is the kernel's step counter as seen by the spin watchdog.
var stepBeat int64

// SpinCPU is the processor time a task may consume between two scheduling points before the
// run is declared to be spinning. A legal run needs microseconds to milliseconds.
var SpinCPU = 12 * time.Second

func cpuTime() time.Duration {
	var ru syscall.Rusage
	if syscall.Getrusage(syscall.RUSAGE_SELF, &ru) != nil {
		return 0
	}
	return time.Duration(ru.Utime.Nano() + ru.Stime.Nano())
}

// spinWatch runs on the real clock, outside the simulation. It measures processor time, not
// wall-clock time, so a loaded machine cannot trip it.
func spinWatch(done chan struct{}, spun chan string) {
	last, lastCPU := int64(-1), cpuTime()
	for {
		select {
		case <-done:
			return
		case <-time.After(500 * time.Millisecond):
		}
		if b := atomic.LoadInt64(&stepBeat); b != last {
			last, lastCPU = b, cpuTime()
			continue
		}
		if cpuTime()-lastCPU >= SpinCPU {
			buf := make([]byte, 1<<20)
			n := runtime.Stack(buf, true)
			spun <- string(buf[:n])
			return
		}
	}
}

// eligible reports whether t can be given the token now.
func (k *kernel) eligible(t *ktask) bool {
	switch t.state {
	case tsRunnable:
		return true
	case tsParked:
		return t.epoch != k.epoch
	}
	return false
}

func (k *kernel) runnable() []*ktask {
	var r []*ktask
	for _, t := range k.tasks {
		if t != nil && k.eligible(t) {
			r = append(r, t)
		}
	}
	return r
}

// pick chooses the next task, advancing virtual time when nothing can run.
func (k *kernel) pick(cur *ktask) *ktask {
	for {
		if k.ended {
			return nil
		}
		R := k.runnable()
		if len(R) > 0 {
			curOK := cur != nil && k.eligible(cur) && cur.state == tsRunnable
			if curOK {
				if len(R) == 1 {
					return cur
				}
				// optional stall of the current (library) task
				if k.cfg.StallDen > 0 && cur.kind == 0 && k.choose(k.cfg.StallDen) == 1 {
					d := [...]int64{1e6, 10e6, 100e6, 1e9, 3e9, 7e9}[k.choose(6)]
					k.faults["stall"]++
					k.tr("stall task %d for %dns", cur.id, d)
					k.sleepTask(cur, d)
					continue
				}
				consider := k.cfg.PreemptN == 1 || (k.cfg.PreemptN > 1 && k.choose(k.cfg.PreemptN) == 1)
				if !consider {
					return cur
				}
				// order: current first, then the others by id
				idx := k.choose(len(R))
				if idx == 0 {
					return cur
				}
				j := 0
				for _, t := range R {
					if t == cur {
						continue
					}
					j++
					if j == idx {
						return t
					}
				}
				return cur
			}
			return R[k.choose(len(R))]
		}
		// nothing can run: events that are already due fire first (no clock movement) ...
		if len(k.tmrs) > 0 && k.tmrs[0].when <= k.now {
			k.fireOneDue()
			continue
		}
		// ... then settle waiters (the clock must not move under them)
		var sw []*ktask
		for _, t := range k.tasks {
			if t != nil && t.state == tsSettle {
				sw = append(sw, t)
			}
		}
		if len(sw) > 0 {
			t := sw[k.choose(len(sw))]
			t.state = tsRunnable
			return t
		}
		// advance the clock to the next event
		if len(k.tmrs) == 0 {
			k.noProgress()
			return nil
		}
		when := k.tmrs[0].when
		if k.deadline > 0 && when > k.deadline {
			k.tr("virtual deadline passed")
			k.end(StatusIdle)
			return nil
		}
		if when > k.now {
			k.now = when
		}
		k.fireOneDue()
	}
}

// fireOneDue fires one of the timers that are due (when <= now); the tape picks which.
func (k *kernel) fireOneDue() {
	var ties []*ktimer
	for len(k.tmrs) > 0 && k.tmrs[0].when <= k.now {
		ties = append(ties, heap.Pop(&k.tmrs).(*ktimer))
	}
	sort.Slice(ties, func(i, j int) bool { return ties[i].seq < ties[j].seq })
	pick := k.choose(len(ties))
	for i, t := range ties {
		if i != pick {
			heap.Push(&k.tmrs, t)
		}
	}
	heap.Push(&k.tmrs, ties[pick]) // fire() removes it by index
	k.fire(ties[pick])
}

func (k *kernel) noProgress() {
	// No runnable task, no settle waiter, no timer. Either a deadlock or plain idleness.
	var blocked []string
	lockBlocked := false
	for _, t := range k.tasks {
		if t == nil || t.state == tsDone {
			continue
		}
		blocked = append(blocked, fmt.Sprintf("task %d kind=%d %s lock=%d site=%d", t.id, t.kind, t.state, t.lockID, t.lastSite))
		if t.state == tsLock {
			lockBlocked = true
		}
	}
	k.out.Deadlock = strings.Join(blocked, "\n")
	if lockBlocked {
		k.tr("deadlock: %s", strings.Join(blocked, " | "))
		k.end(StatusDeadlock)
		return
	}
	k.tr("idle: nothing left to run")
	k.end(StatusIdle)
}

func (k *kernel) sleepTask(t *ktask, d int64) {
	t.state = tsSleep
	t.wakeAt = k.now + d
	k.seq++
	tm := &ktimer{id: -t.id, when: t.wakeAt, seq: k.seq, task: t, active: true}
	heap.Push(&k.tmrs, tm)
}

func (k *kernel) fire(t *ktimer) {
	heap.Remove(&k.tmrs, t.index)
	if t.task != nil {
		if t.task.state == tsSleep {
			t.task.state = tsRunnable
		}
		return
	}
	if t.inbound {
		k.inboundTmr--
		if k.netReader != nil {
			k.tryNetRead(k.netReader)
		}
		return
	}
	// feeder timer: command, then wait for the acknowledgement
	t.fd.cmd, t.fd.now = 1, k.now
	semrelease(&t.fd.sema, true, 0)
	semacquire(&ksema)
	k.epoch++
	if t.period > 0 {
		// A ticker whose creator has exited and whose ticks nobody consumes is garbage (the Go
		// runtime collects unreferenced tickers); stop feeding it.
		if t.fd.res == 0 {
			t.missed++
		} else {
			t.missed = 0
		}
		if t.missed >= 2 && t.owner != nil && t.owner.state == tsDone {
			t.active = false
			k.closeTimer(t)
			k.tr("ticker %d abandoned: collected", t.id)
			return
		}
	}
	k.tr("timer %d fired", t.id)
	if t.period > 0 {
		t.when += t.period
		if t.when <= k.now { // never more than one pending tick, like the runtime
			t.when = k.now + t.period
		}
		k.seq++
		t.seq = k.seq
		heap.Push(&k.tmrs, t)
		return
	}
	t.active = false
	if t.auto {
		k.closeTimer(t)
	}
}

func (k *kernel) closeTimer(t *ktimer) {
	t.fd.cmd = 2
	semrelease(&t.fd.sema, true, 0)
	delete(k.byID, t.id)
}

func (k *kernel) lock(id int64) *lockState {
	l := k.locks[id]
	if l == nil {
		l = &lockState{readers: map[*ktask]int{}}
		k.locks[id] = l
	}
	return l
}

func (k *kernel) grant(l *lockState, t *ktask, id, mode int64) {
	if mode == ModeW {
		l.writer = t
	} else {
		l.readers[t]++
		l.nreaders++
	}
	t.held[id]++
}

func (k *kernel) canGrant(l *lockState, t *ktask, mode int64) bool {
	if mode == ModeW {
		return l.writer == nil && l.nreaders == 0
	}
	return l.writer == nil && len(l.waitW) == 0
}

func remove(s []*ktask, t *ktask) []*ktask {
	for i := range s {
		if s[i] == t {
			return append(s[:i], s[i+1:]...)
		}
	}
	return s
}

// lockCycle looks for a wait-for cycle starting at t (exact for mutexes and rw-locks).
func (k *kernel) lockCycle(start *ktask) string {
	seen := map[*ktask]bool{}
	var path []string
	var dfs func(t *ktask) bool
	dfs = func(t *ktask) bool {
		if t.state != tsLock {
			return false
		}
		if seen[t] {
			return t == start
		}
		seen[t] = true
		l := k.locks[t.lockID]
		if l == nil {
			return false
		}
		var owners []*ktask
		if l.writer != nil {
			owners = append(owners, l.writer)
		}
		for r := range l.readers {
			owners = append(owners, r)
		}
		// a reader blocked only because a writer waits depends on that writer's blockers
		if t.lockMode == ModeR && l.writer == nil {
			owners = append(owners, l.waitW...)
		}
		sort.Slice(owners, func(i, j int) bool { return owners[i].id < owners[j].id })
		for _, o := range owners {
			if o == t {
				if t == start { // self-deadlock (recursive lock)
					path = append(path, fmt.Sprintf("task %d waits lock %d held by itself (site %d)", t.id, t.lockID, t.lastSite))
					return true
				}
				continue
			}
			if o == start && t != start {
				path = append(path, fmt.Sprintf("task %d waits lock %d held by task %d", t.id, t.lockID, o.id))
				return true
			}
			if dfs(o) {
				path = append(path, fmt.Sprintf("task %d waits lock %d held by task %d", t.id, t.lockID, o.id))
				return true
			}
		}
		return false
	}
	if dfs(start) {
		return strings.Join(path, "; ")
	}
	return ""
}

func (k *kernel) taskInfo() string {
	var sb strings.Builder
	for _, t := range k.tasks {
		if t == nil || t.state == tsDone {
			continue
		}
		fmt.Fprintf(&sb, "%d %d %s %d %d\n", t.id, t.kind, t.state, t.site, t.lastSite)
	}
	return sb.String()
}

func (k *kernel) handle(t *ktask, m msg) {
	switch m.op {
	case opYield:
		if m.b != 2 {
			t.lastSite = m.a
		}
		t.pend.r0 = k.seq
	case opGo:
		k.nextTask(m.a, m.ctx, int(m.c))
	case opExit:
		t.state = tsDone
		k.live--
		for i, x := range k.tasks {
			if x == t {
				k.tasks = append(k.tasks[:i], k.tasks[i+1:]...)
				break
			}
		}
		k.tr("task %d exit", t.id)
		if len(t.held) > 0 {
			for id, n := range t.held {
				if n > 0 {
					k.tr("task %d exited holding lock %d", t.id, id)
				}
			}
		}
	case opPanic:
		k.out.PanicText = string(m.payload)
		k.out.PanicTask = fmt.Sprintf("task %d kind=%d gosite=%d", t.id, t.kind, t.site)
		k.tr("PANIC in task %d: %s", t.id, firstLine(string(m.payload)))
		k.end(StatusPanic)
	case opLock:
		t.lastSite = m.c
		l := k.lock(m.a)
		if k.canGrant(l, t, m.b) {
			k.grant(l, t, m.a, m.b)
			return
		}
		t.state = tsLock
		t.lockID, t.lockMode = m.a, m.b
		if m.b == ModeW {
			l.waitW = append(l.waitW, t)
		} else {
			l.waitR = append(l.waitR, t)
		}
		if c := k.lockCycle(t); c != "" {
			k.out.Deadlock = c
			k.tr("deadlock: %s", c)
			k.end(StatusDeadlock)
		}
	case opTryLock:
		l := k.lock(m.a)
		ok := false
		if m.b == ModeW {
			ok = l.writer == nil && l.nreaders == 0
		} else {
			ok = l.writer == nil && len(l.waitW) == 0
		}
		if ok {
			k.grant(l, t, m.a, m.b)
			t.pend.r0 = 1
		}
	case opUnlock:
		l := k.lock(m.a)
		if m.b == ModeW {
			if l.writer == nil {
				t.pend.r0 = 0
				return
			}
			// sync.Mutex may be unlocked by another goroutine; keep the books on the holder
			h := l.writer
			l.writer = nil
			if h.held[m.a] > 0 {
				h.held[m.a]--
				if h.held[m.a] == 0 {
					delete(h.held, m.a)
				}
			}
			t.pend.r0 = 1
			if len(l.waitR) > 0 {
				for _, r := range l.waitR {
					k.grant(l, r, m.a, ModeR)
					r.state = tsRunnable
				}
				l.waitR = nil
			} else if len(l.waitW) > 0 {
				w := l.waitW[k.choose(len(l.waitW))]
				l.waitW = remove(l.waitW, w)
				k.grant(l, w, m.a, ModeW)
				w.state = tsRunnable
			}
		} else {
			if l.nreaders == 0 {
				t.pend.r0 = 0
				return
			}
			h := t
			if l.readers[h] == 0 { // RUnlock by a goroutine that did not RLock: legal; charge any holder
				var hs []*ktask
				for r := range l.readers {
					hs = append(hs, r)
				}
				sort.Slice(hs, func(i, j int) bool { return hs[i].id < hs[j].id })
				h = hs[0]
			}
			l.readers[h]--
			if l.readers[h] == 0 {
				delete(l.readers, h)
			}
			l.nreaders--
			if h.held[m.a] > 0 {
				h.held[m.a]--
				if h.held[m.a] == 0 {
					delete(h.held, m.a)
				}
			}
			t.pend.r0 = 1
			if l.nreaders == 0 && len(l.waitW) > 0 {
				w := l.waitW[k.choose(len(l.waitW))]
				l.waitW = remove(l.waitW, w)
				k.grant(l, w, m.a, ModeW)
				w.state = tsRunnable
				// readers that queued behind this writer stay queued until it unlocks
			} else if len(l.waitW) == 0 && len(l.waitR) > 0 {
				for _, r := range l.waitR {
					k.grant(l, r, m.a, ModeR)
					r.state = tsRunnable
				}
				l.waitR = nil
			}
		}
	case opPark:
		t.lastSite = m.a
		t.state = tsParked
		t.epoch = k.epoch
	case opProgress:
		k.epoch++
	case opSleep:
		k.sleepTask(t, m.a)
	case opTimerNew:
		k.seq++
		tm := &ktimer{id: m.a, when: k.now + m.b, period: m.c, seq: k.seq, fd: m.fd, active: true, owner: t}
		if m.c < 0 { // auto-close one shot
			tm.period = 0
			tm.auto = true
		}
		k.byID[m.a] = tm
		heap.Push(&k.tmrs, tm)
	case opTimerStop:
		if tm := k.byID[m.a]; tm != nil {
			if tm.active {
				heap.Remove(&k.tmrs, tm.index)
				tm.active = false
				t.pend.r0 = 1
			}
		}
	case opTimerReset:
		if tm := k.byID[m.a]; tm != nil {
			if tm.active {
				heap.Remove(&k.tmrs, tm.index)
				t.pend.r0 = 1
			}
			tm.active = true
			tm.when = k.now + m.b
			tm.period = m.c
			k.seq++
			tm.seq = k.seq
			heap.Push(&k.tmrs, tm)
		}
	case opSettle:
		t.state = tsSettle
	case opChoose:
		t.pend.r0 = int64(k.choose(int(m.a)))
	case opTrace:
		k.tr("T%d %s", t.id, string(m.payload))
	case opProbe:
		k.probes[string(m.payload)] += m.a
	case opResult:
		k.out.Result = m.payload
		k.end(StatusResult)
	case opKill:
		k.tr("task %d: SIGTERM to self", t.id)
		k.end(StatusKill)
	case opTaskInfo:
		t.pend.payload = []byte(k.taskInfo())
	case opDeadline:
		k.deadline = m.a
	case opNetRead:
		t.state = tsNetRead
		k.netReader = t
		k.tryNetRead(t)
	case opNetWrite:
		switch {
		case k.netClosed:
			t.pend.r0 = 3
		case k.wrErrPerm:
			k.faults["write_err_perm"]++
			t.pend.r0 = 2
		case k.wrErrTemp > 0:
			k.wrErrTemp--
			k.faults["write_err_temp"]++
			t.pend.r0 = 1
		default:
			k.outq = append(k.outq, OutFrame{Seq: k.seq, Time: k.now, Task: t.id, Data: m.payload})
			k.epoch++
		}
	case opNetInject:
		k.seq++
		f := inFrame{due: k.now + m.a, seq: k.seq, data: m.payload}
		k.inq = append(k.inq, f)
		if m.a > 0 {
			tm := &ktimer{id: 0, when: f.due, seq: k.seq, inbound: true, active: true}
			heap.Push(&k.tmrs, tm)
			k.inboundTmr++
		} else if k.netReader != nil {
			k.tryNetRead(k.netReader)
		}
	case opNetPoll:
		if k.outPos < len(k.outq) {
			f := k.outq[k.outPos]
			k.outq[k.outPos].Data = nil
			k.outPos++
			p := make([]byte, 24+len(f.Data))
			putInt(p, 0, f.Seq)
			putInt(p, 1, f.Time)
			putInt(p, 2, f.Task)
			copy(p[24:], f.Data)
			t.pend.r0 = 1
			t.pend.payload = p
		}
	case opNetClose:
		k.netClosed = true
		if k.netReader != nil {
			k.tryNetRead(k.netReader)
		}
	case opNetCtl:
		switch m.a {
		case NetCtlReadErrTemp:
			k.rdErrTemp += int(m.b)
		case NetCtlReadErrPerm:
			k.rdErrPerm = true
		case NetCtlWriteErrTemp:
			k.wrErrTemp += int(m.b)
		case NetCtlWriteErrPerm:
			k.wrErrPerm = m.b > 0
		case NetCtlPendingIn:
			t.pend.r0 = int64(len(k.inq))
		case NetCtlReaderParked:
			if k.netReader != nil {
				t.pend.r0 = 1
			}
		case NetCtlReopen:
			k.netClosed, k.rdErrPerm, k.wrErrPerm = false, false, false
			k.rdErrTemp, k.wrErrTemp = 0, 0
			k.inq = nil
		}
		if k.netReader != nil {
			k.tryNetRead(k.netReader)
		}
	case opFSRead:
		k.fsReads++
		name := string(m.payload)
		if k.failReadK > 0 {
			k.failReadK--
			if k.failReadK == 0 {
				k.faults["fs_read_eio"]++
				t.pend.r0 = FSEIO
				return
			}
		}
		data, ok := k.files[name]
		if !ok {
			t.pend.r0 = FSNotExist
			return
		}
		t.pend.payload = append([]byte(nil), data...)
		if len(data) == 0 {
			t.pend.payload = nil
		}
	case opFSWrite:
		i := 0
		for i < len(m.payload) && m.payload[i] != 0 {
			i++
		}
		name := string(m.payload[:i])
		data := append([]byte(nil), m.payload[i+1:]...)
		k.fsWrites++
		prev, had := k.files[name]
		k.fsHist = append(k.fsHist, fsWrite{name: name, data: data, prev: prev, had: had})
		if k.failWriteK > 0 {
			k.failWriteK--
			if k.failWriteK == 0 {
				switch k.failWriteC {
				case FSENOSPC:
					n := int(k.failWriteN)
					if n > len(data) {
						n = len(data)
					}
					k.files[name] = data[:n] // truncate-then-write: a short write leaves a prefix
					k.faults["fs_write_enospc"]++
					t.pend.r0 = FSENOSPC
				default:
					k.faults["fs_write_eio"]++
					t.pend.r0 = FSEIO // nothing reached the disk, old content survives
				}
				return
			}
		}
		k.files[name] = data
	case opFSRename:
		i := 0
		for i < len(m.payload) && m.payload[i] != 0 {
			i++
		}
		from, to := string(m.payload[:i]), string(m.payload[i+1:])
		d, ok := k.files[from]
		if !ok {
			t.pend.r0 = FSNotExist
			return
		}
		k.fsHist = append(k.fsHist, fsWrite{name: from, rename: to})
		k.files[to] = d
		delete(k.files, from)
	case opFSRemove:
		name := string(m.payload)
		if _, ok := k.files[name]; !ok {
			t.pend.r0 = FSNotExist
			return
		}
		k.fsHist = append(k.fsHist, fsWrite{name: name, remove: true})
		delete(k.files, name)
	case opFSCtl:
		switch m.a {
		case FSCtlGet:
			if d, ok := k.files[string(m.payload)]; ok {
				t.pend.r0 = 1
				t.pend.payload = append([]byte(nil), d...)
			}
		case FSCtlSet:
			i := 0
			for i < len(m.payload) && m.payload[i] != 0 {
				i++
			}
			k.files[string(m.payload[:i])] = append([]byte(nil), m.payload[i+1:]...)
		case FSCtlRemove:
			delete(k.files, string(m.payload))
		case FSCtlFailWrite:
			k.failWriteK, k.failWriteC, k.failWriteN = m.b, m.c, m.d
		case FSCtlFailRead:
			k.failReadK = m.b
		case FSCtlReset:
			k.files = map[string][]byte{}
		case FSCtlWriteCount:
			t.pend.r0 = k.fsWrites
		case FSCtlHistory:
			if int(m.b) < len(k.fsHist) {
				h := k.fsHist[m.b]
				t.pend.r0 = 1
				if h.rename != "" {
					t.pend.r1 = -2
					t.pend.payload = append(append([]byte(h.name), 0), h.rename...)
					return
				}
				if h.remove {
					t.pend.r1 = -3
					t.pend.payload = []byte(h.name)
					return
				}
				if h.had {
					t.pend.r1 = int64(len(h.prev))
				} else {
					t.pend.r1 = -1
				}
				p := append([]byte(h.name), 0)
				p = append(p, h.data...)
				p = append(p, h.prev...)
				t.pend.payload = p
			}
		}
	default:
		fatal(fmt.Sprintf("kernel: unknown op %d from task %d", m.op, t.id))
	}
}

func (k *kernel) nextTask(site int64, ctx *taskCtx, kind int) {
	k.ntask++
	id := k.ntask
	nt := &ktask{id: id, ctx: ctx, kind: kind, site: site, state: tsRunnable, held: map[int64]int{}}
	nt.lastSite = site
	k.tasks = append(k.tasks, nt)
	k.live++
	if k.live > k.maxTasks {
		k.maxTasks = k.live
	}
	k.tr("go task %d kind=%d site=%d", id, kind, site)
}

func (k *kernel) tryNetRead(t *ktask) {
	if t.state != tsNetRead {
		return
	}
	done := func() {
		t.state = tsRunnable
		k.netReader = nil
	}
	if k.netClosed {
		t.pend.r0 = 3
		done()
		return
	}
	if k.rdErrPerm {
		k.rdErrPerm = false
		k.faults["read_err_perm"]++
		t.pend.r0 = 2
		done()
		return
	}
	if k.rdErrTemp > 0 {
		k.rdErrTemp--
		k.faults["read_err_temp"]++
		t.pend.r0 = 1
		done()
		return
	}
	// earliest due frame (by due time, then injection order)
	best := -1
	for i, f := range k.inq {
		if f.due <= k.now && (best < 0 || f.due < k.inq[best].due || (f.due == k.inq[best].due && f.seq < k.inq[best].seq)) {
			best = i
		}
	}
	if best < 0 {
		return
	}
	f := k.inq[best]
	k.inq = append(k.inq[:best], k.inq[best+1:]...)
	t.pend.r0 = 0
	t.pend.payload = f.data
	done()
}

func firstLine(s string) string {
	if i := strings.IndexByte(s, '\n'); i >= 0 {
		return s[:i]
	}
	return s
}

// HashBytes is a helper for harness fingerprints.
func HashBytes(b []byte) uint64 {
	h := fnv.New64a()
	h.Write(b)
	return h.Sum64()
}

var _ = os.Getpid
