// Package simrt is the deterministic simulation runtime: a kernel goroutine that owns all
// simulator state (tasks, locks, timers, virtual clock, simulated network and disk, the choice
// tape) and a task-side API used by the shim packages and by code rewritten by simgen.
//
// Exactly one task (a real goroutine) runs at any time. Control is handed over with raw
// read/write system calls on pipes, which the race detector does not see, so that under -race the
// only happens-before edges between tasks are those of the program's own synchronisation.
// Messages carry integers and byte payloads only.
package simrt

import (
	"syscall"
	"unsafe"
)

// operation codes (task -> kernel)
const (
	opYield = iota + 1
	opGo
	opExit
	opPanic
	opLock
	opUnlock
	opTryLock
	opPark
	opProgress
	opSleep
	opTimerNew
	opTimerStop
	opTimerReset
	opAck
	opSettle
	opChoose
	opNetRead
	opNetWrite
	opNetInject
	opNetPoll
	opNetClose
	opNetCtl
	opFSRead
	opFSWrite
	opFSCtl
	opTrace
	opResult
	opKill
	opTaskInfo
	opProbe
	opDeadline
)

const hdrInts = 6
const hdrLen = hdrInts * 8

// msg is a request from a task to the kernel.
type msg struct {
	op, a, b, c, d int64
	payload        []byte
}

// reply is the kernel's answer, delivered when the task is scheduled again.
type reply struct {
	r0, r1  int64
	now     int64
	budget  int64
	tid     int64
	payload []byte
}

//go:norace
func rawWrite(fd int, b []byte) {
	for len(b) > 0 {
		n, _, e := syscall.Syscall(syscall.SYS_WRITE, uintptr(fd), uintptr(unsafe.Pointer(&b[0])), uintptr(len(b)))
		if e != 0 {
			if e == syscall.EINTR || e == syscall.EAGAIN {
				continue
			}
			fatal("simrt: pipe write failed: " + e.Error())
		}
		b = b[n:]
	}
}

//go:norace
func rawRead(fd int, b []byte) {
	for len(b) > 0 {
		n, _, e := syscall.Syscall(syscall.SYS_READ, uintptr(fd), uintptr(unsafe.Pointer(&b[0])), uintptr(len(b)))
		if e != 0 {
			if e == syscall.EINTR || e == syscall.EAGAIN {
				continue
			}
			fatal("simrt: pipe read failed: " + e.Error())
		}
		if n == 0 {
			// write end closed: the simulation is over; park this goroutine forever.
			select {}
		}
		b = b[n:]
	}
}

//go:norace
func rawPipe() (r, w int) {
	var p [2]int32
	_, _, e := syscall.RawSyscall(syscall.SYS_PIPE2, uintptr(unsafe.Pointer(&p[0])), uintptr(syscall.O_CLOEXEC), 0)
	if e != 0 {
		fatal("simrt: pipe2 failed: " + e.Error())
	}
	return int(p[0]), int(p[1])
}

//go:norace
func rawClose(fd int) {
	syscall.RawSyscall(syscall.SYS_CLOSE, uintptr(fd), 0, 0)
}

func putInt(b []byte, i int, v int64) {
	u := uint64(v)
	o := i * 8
	b[o] = byte(u)
	b[o+1] = byte(u >> 8)
	b[o+2] = byte(u >> 16)
	b[o+3] = byte(u >> 24)
	b[o+4] = byte(u >> 32)
	b[o+5] = byte(u >> 40)
	b[o+6] = byte(u >> 48)
	b[o+7] = byte(u >> 56)
}

func getInt(b []byte, i int) int64 {
	o := i * 8
	return int64(uint64(b[o]) | uint64(b[o+1])<<8 | uint64(b[o+2])<<16 | uint64(b[o+3])<<24 |
		uint64(b[o+4])<<32 | uint64(b[o+5])<<40 | uint64(b[o+6])<<48 | uint64(b[o+7])<<56)
}

func fatal(s string) {
	// Infrastructure failure: exit code 2, never a violation.
	b := []byte("SIMRT-FATAL: " + s + "\n")
	syscall.Write(2, b)
	if resultFD > 0 {
		syscall.Write(resultFD, b)
	}
	syscall.Exit(2)
}

// resultFD, when > 0, also receives fatal diagnostics (fd 2 is usually /dev/null in workers).
var resultFD int

// SetDiagFD directs fatal diagnostics to fd as well.
func SetDiagFD(fd int) { resultFD = fd }
