// Package simrt is the deterministic simulation runtime: a kernel goroutine that owns all
// simulator state (tasks, locks, timers, virtual clock, simulated network and disk, the choice
// tape) and a task-side API used by the shim packages and by code rewritten by simgen.
//
// Exactly one task (a real goroutine) runs at any time. Control is handed over with the
// runtime's internal semaphores (the primitive underneath sync.Mutex), reached by linkname.
// Unlike channels, sync and sync/atomic they carry no race-detector annotations, so under
// -race the only happens-before edges between tasks are those of the program's own
// synchronisation. Task-side accesses to the mailbox are confined to //go:norace functions
// and payloads are copied there, so the detector never sees simulator plumbing.
package simrt

import (
	"syscall"
	_ "unsafe" // linkname
)

//go:linkname semacquire sync.runtime_Semacquire
func semacquire(s *uint32)

//go:linkname semrelease sync.runtime_Semrelease
func semrelease(s *uint32, handoff bool, skipframes int)

// operation codes (task -> kernel)
const (
	opYield = iota + 1
	opGo
	opExit
	opPanic
	opLock
	opUnlock
	opTryLock
	opPark
	opProgress
	opSleep
	opTimerNew
	opTimerStop
	opTimerReset
	opAck
	opSettle
	opChoose
	opNetRead
	opNetWrite
	opNetInject
	opNetPoll
	opNetClose
	opNetCtl
	opFSRead
	opFSWrite
	opFSCtl
	opTrace
	opResult
	opKill
	opTaskInfo
	opProbe
	opDeadline
	opFSRename
	opFSRemove
)

// msg is a request from a task to the kernel.
type msg struct {
	op, a, b, c, d int64
	payload        []byte
	ctx            *taskCtx   // opGo: the new task
	fd             *feederCtx // opTimerNew: the timer's feeder
}

// reply is the kernel's answer, delivered when the task is scheduled again.
type reply struct {
	r0, r1  int64
	now     int64
	budget  int64
	tid     int64
	payload []byte
}

// mbox is the single mailbox: written by the token holder, read by the kernel.
var mbox msg
var ksema uint32

// dumpReq asks the next task that is woken to record its own stack in hangDump (livelock report).
var dumpReq bool
var hangDump string

//go:norace
func clone(p []byte) []byte {
	if len(p) == 0 {
		return nil
	}
	b := make([]byte, len(p))
	for i := range p { // copy() would call runtime.slicecopy, which is race-annotated
		b[i] = p[i]
	}
	return b
}

func putInt(b []byte, i int, v int64) {
	u := uint64(v)
	o := i * 8
	b[o] = byte(u)
	b[o+1] = byte(u >> 8)
	b[o+2] = byte(u >> 16)
	b[o+3] = byte(u >> 24)
	b[o+4] = byte(u >> 32)
	b[o+5] = byte(u >> 40)
	b[o+6] = byte(u >> 48)
	b[o+7] = byte(u >> 56)
}

func getInt(b []byte, i int) int64 {
	o := i * 8
	return int64(uint64(b[o]) | uint64(b[o+1])<<8 | uint64(b[o+2])<<16 | uint64(b[o+3])<<24 |
		uint64(b[o+4])<<32 | uint64(b[o+5])<<40 | uint64(b[o+6])<<48 | uint64(b[o+7])<<56)
}

func fatal(s string) {
	// Infrastructure failure: exit code 2, never a violation.
	b := []byte("SIMRT-FATAL: " + s + "\n")
	syscall.Write(2, b)
	if resultFD > 0 {
		syscall.Write(resultFD, b)
	}
	syscall.Exit(2)
}

// resultFD, when > 0, also receives fatal diagnostics (fd 2 is usually /dev/null in workers).
var resultFD int

// SetDiagFD directs fatal diagnostics to fd as well.
func SetDiagFD(fd int) { resultFD = fd }
