package simrt

// Channel operations rewritten by simgen. The channel stays a real Go channel; a blocked
// operation performs the non-blocking form and, if not ready, parks in the kernel until some
// other task has made progress.

// Recv is `<-ch`.
func Recv[T any](ch <-chan T) T {
	if !Active() {
		return <-ch
	}
	for {
		select {
		case v := <-ch:
			Progress()
			return v
		default:
		}
		Park(-1)
	}
}

// Recv2 is `v, ok := <-ch`.
func Recv2[T any](ch <-chan T) (T, bool) {
	if !Active() {
		v, ok := <-ch
		return v, ok
	}
	for {
		select {
		case v, ok := <-ch:
			Progress()
			return v, ok
		default:
		}
		Park(-1)
	}
}

// Send is `ch <- v`.
func Send[T any](ch chan<- T, v T) {
	if !Active() {
		ch <- v
		return
	}
	for {
		select {
		case ch <- v:
			Progress()
			return
		default:
		}
		Park(-2)
	}
}

// Close is `close(ch)`.
func Close[T any](ch chan<- T) {
	if Active() {
		Yield(-3)
	}
	close(ch)
	Progress()
}

// Sel drives a rewritten select statement.
type Sel struct {
	n     int
	order [16]int8
	pos   int
	def   bool
}

// SelectStart begins a select with n communication cases; def says whether the original
// statement had a default clause. The order in which cases are tried comes from the tape.
func SelectStart(n int, def bool) Sel {
	var s Sel
	s.n = n
	s.def = def
	if n > len(s.order) {
		fatal("simrt: select with too many cases")
	}
	for i := 0; i < n; i++ {
		s.order[i] = int8(i)
	}
	if Active() {
		Yield(-4)
		// Fisher-Yates with tape draws; draw 0 keeps the source order
		for i := 0; i < n-1; i++ {
			j := i + Choose(n-i, 2)
			s.order[i], s.order[j] = s.order[j], s.order[i]
		}
	}
	return s
}

// SelectNext returns the index of the case to enable for the next attempt. When a whole
// round has failed it parks (select without default) before starting the next round.
func SelectNext(s *Sel) int {
	if s.n == 0 {
		if s.def {
			return -1
		}
		for { // select {} blocks forever
			Park(-5)
		}
	}
	if s.pos == s.n {
		s.pos = 0
		if Active() {
			Park(-5)
		}
	}
	i := s.order[s.pos]
	s.pos++
	return int(i)
}

// SelectMore reports whether untried cases remain in this round (select with default).
func SelectMore(s *Sel) bool { return s.pos < s.n }

// SelectDone is called at the start of the chosen case body.
func SelectDone() { Progress() }

// MapKeys returns the keys of m in a canonical order rotated by a tape draw, so that map
// iteration order is a recorded, replayable choice.
func MapKeys[K comparable, V any](m map[K]V) []K {
	n := len(m)
	if n == 0 {
		return nil
	}
	keys := make([]K, 0, n)
	for k := range m {
		keys = append(keys, k)
	}
	sortKeys(keys)
	if n > 1 && Active() {
		r := Choose(n, 3)
		if r > 0 {
			rot := make([]K, 0, n)
			rot = append(rot, keys[r:]...)
			rot = append(rot, keys[:r]...)
			keys = rot
		}
	}
	return keys
}
