package simrt

import (
	"fmt"
	"runtime"
	"runtime/debug"
)

// taskCtx is the hand-over cell of one task: the kernel stores the reply and releases sema.
type taskCtx struct {
	id   int64
	sema uint32
	in   reply
}

// feederCtx is the hand-over cell of one timer feeder.
type feederCtx struct {
	sema uint32
	cmd  int64
	now  int64
	res  int64 // 1 if the last fire delivered, 0 if the channel was still full
}

//go:norace
func newTaskCtx() *taskCtx { return new(taskCtx) }

//go:norace
func newFeederCtx() *feederCtx { return new(feederCtx) }

// Globals touched only by the current token holder, always inside //go:norace functions.
var (
	cur     *taskCtx
	vnow    int64
	budget  int64
	active  bool
	nextID  uint32
	nextTID int64
)

// Active reports whether a simulation is running (false during package initialisation).
//
//go:norace
func Active() bool { return active && cur != nil }

// Now returns virtual nanoseconds since the epoch of the simulation.
//
//go:norace
func Now() int64 { return vnow }

// TaskID returns the id of the running task.
//
//go:norace
func TaskID() int64 {
	if cur == nil {
		return 0
	}
	return cur.id
}

// NewID hands out small unique ids for locks, timers and pools.
//
//go:norace
func NewID() uint32 {
	nextID++
	return nextID
}

//go:norace
func call(op, a, b, c, d int64, payload []byte) reply {
	return callx(op, a, b, c, d, payload, nil, nil)
}

//go:norace
func callx(op, a, b, c, d int64, payload []byte, ctx *taskCtx, fd *feederCtx) reply {
	me := cur
	if me == nil {
		fatal("simrt: call outside a task")
	}
	mbox.op, mbox.a, mbox.b, mbox.c, mbox.d = op, a, b, c, d
	mbox.payload = clone(payload)
	mbox.ctx, mbox.fd = ctx, fd
	semrelease(&ksema, true, 0)
	return waitWake(me)
}

//go:norace
func waitWake(me *taskCtx) reply {
	semacquire(&me.sema)
	if dumpReq { // the kernel found this task looping: hand over the stack and stay parked
		buf := make([]byte, 1<<16)
		hangDump = string(buf[:runtime.Stack(buf, false)])
		semrelease(&ksema, true, 0)
		for {
			semacquire(&me.sema)
		}
	}
	r := me.in
	me.in = reply{}
	r.payload = clone(r.payload)
	cur = me
	me.id = r.tid
	vnow = r.now
	budget = r.budget
	return r
}

// Y is a yield hint inserted by simgen at function entries and loop heads. It costs a
// decrement unless the kernel-supplied countdown has run out.
//
//go:norace
func Y(site int) {
	if !active || cur == nil {
		return
	}
	if budget <= 0 { // 0 = no hint-driven preemption for this slice
		return
	}
	budget--
	if budget > 0 {
		return
	}
	call(opYield, int64(site), 1, 0, 0, nil)
}

// Yield is an unconditional scheduling point.
func Yield(site int) {
	if !Active() {
		return
	}
	call(opYield, int64(site), 0, 0, 0, nil)
}

// Go starts f as a new task. kind: 0 library, 1 harness.
func Go(site int, f func()) { spawn(site, 0, f) }

// GoHarness starts a harness task (not counted as a library goroutine).
func GoHarness(name int, f func()) { spawn(name, 1, f) }

func spawn(site int, kind int, f func()) {
	if !Active() {
		go f()
		return
	}
	t := newTaskCtx()
	go taskMain(t, f)
	callx(opGo, int64(site), 0, int64(kind), 0, nil, t, nil)
}

func taskMain(t *taskCtx, f func()) {
	waitWake(t)
	defer func() {
		if e := recover(); e != nil {
			s := fmt.Sprintf("%v\n%s", e, debug.Stack())
			call(opPanic, 0, 0, 0, 0, []byte(s))
			select {}
		}
	}()
	f()
	exitTask(t)
}

//go:norace
func exitTask(t *taskCtx) {
	mbox.op, mbox.a, mbox.b, mbox.c, mbox.d = opExit, 0, 0, 0, 0
	mbox.payload, mbox.ctx, mbox.fd = nil, nil, nil
	semrelease(&ksema, true, 0)
}

// Lock modes
const (
	ModeW = 0
	ModeR = 1
)

// Lock blocks until the kernel grants lock id in mode.
func Lock(id uint32, mode int, site int) {
	call(opLock, int64(id), int64(mode), int64(site), 0, nil)
}

// TryLock reports whether the lock was granted.
func TryLock(id uint32, mode int) bool {
	return call(opTryLock, int64(id), int64(mode), 0, 0, nil).r0 == 1
}

// Unlock releases lock id; returns false if it was not held (caller panics like sync does).
func Unlock(id uint32, mode int) bool {
	return call(opUnlock, int64(id), int64(mode), 0, 0, nil).r0 == 1
}

// Park blocks the task until some other task reports progress (channel activity).
func Park(site int) { call(opPark, int64(site), 0, 0, 0, nil) }

// Progress tells the kernel that parked tasks may be able to continue.
func Progress() {
	if !Active() {
		return
	}
	call(opProgress, 0, 0, 0, 0, nil)
}

// Sleep blocks the task for d virtual nanoseconds.
func Sleep(d int64) {
	if !Active() {
		return
	}
	if d < 0 {
		d = 0
	}
	call(opSleep, d, 0, 0, 0, nil)
}

// Settle blocks the (harness) task until every other task is blocked, without letting the
// virtual clock advance.
func Settle() { call(opSettle, 0, 0, 0, 0, nil) }

// Choose draws from the choice tape: a value in [0,n). kind labels the draw in traces.
func Choose(n int, kind int) int {
	if n <= 1 {
		return 0
	}
	return int(call(opChoose, int64(n), int64(kind), 0, 0, nil).r0)
}

// Trace appends a line to the kernel's event log (never draws from the tape).
func Trace(s string) {
	if !Active() {
		return
	}
	call(opTrace, 0, 0, 0, 0, []byte(s))
}

// Probe increments a named reach counter.
func Probe(name string) {
	if !Active() {
		return
	}
	call(opProbe, 1, 0, 0, 0, []byte(name))
}

// ProbeN adds n to a named reach counter.
func ProbeN(name string, n int) {
	if !Active() {
		return
	}
	call(opProbe, int64(n), 0, 0, 0, []byte(name))
}

// Result hands the harness verdict (opaque bytes) to the kernel and ends the run.
func Result(b []byte) {
	call(opResult, 0, 0, 0, 0, b)
	select {}
}

// Kill is the replacement for syscall.Kill(os.Getpid(), SIGTERM): it is recorded and the
// run ends there as a legitimate end of history.
func Kill(pid int, sig interface{}) error {
	if !Active() {
		return nil
	}
	call(opKill, 0, 0, 0, 0, nil)
	select {}
}

// TaskInfo returns a textual dump of all live tasks ("id kind state site" per line).
func TaskInfo() string {
	return string(call(opTaskInfo, 0, 0, 0, 0, nil).payload)
}

// Seq returns the kernel's global event sequence number (a scheduling point by itself).
func Seq() int64 {
	return call(opYield, 0, 2, 0, 0, nil).r0
}

// ---- timers ----

// TimerNew registers a timer with the kernel. The caller has already started the feeder.
func timerNew(id uint32, d, period int64, fd *feederCtx) {
	callx(opTimerNew, int64(id), d, period, 0, nil, nil, fd)
}

func TimerStop(id uint32) bool {
	if !Active() {
		return false
	}
	return call(opTimerStop, int64(id), 0, 0, 0, nil).r0 == 1
}

func TimerReset(id uint32, d, period int64) bool {
	if !Active() {
		return false
	}
	return call(opTimerReset, int64(id), d, period, 0, nil).r0 == 1
}

// StartTimer creates a kernel timer that calls fire(now) (from a private feeder goroutine)
// d nanoseconds from now and then every period nanoseconds (0 = one shot). fire must not
// block. It returns the timer id.
func StartTimer(d, period int64, auto bool, fire func(now int64) bool) uint32 {
	id := NewID()
	fd := newFeederCtx()
	go feeder(fd, fire)
	if auto && period == 0 {
		period = -1 // one shot, feeder closed by the kernel after it fired
	}
	timerNew(id, d, period, fd)
	return id
}

// feeder is not a task. It waits for the kernel's command, performs the non-blocking
// delivery and acknowledges, so the kernel knows the effect is complete.
func feeder(fd *feederCtx, fire func(now int64) bool) {
	for {
		cmd, now := feederWait(fd)
		if cmd == 2 { // quit
			return
		}
		feederDone(fd, fire(now))
		semrelease(&ksema, true, 0) // acknowledge: the kernel is waiting for exactly this
	}
}

//go:norace
func feederDone(fd *feederCtx, delivered bool) {
	fd.res = 0
	if delivered {
		fd.res = 1
	}
}

//go:norace
func feederWait(fd *feederCtx) (int64, int64) {
	semacquire(&fd.sema)
	return fd.cmd, fd.now
}

// ---- network / disk ----

// NetRead blocks until an inbound frame is due. code: 0 ok, 1 temporary error, 2 permanent
// error, 3 closed.
func NetRead() (frame []byte, code int) {
	r := call(opNetRead, 0, 0, 0, 0, nil)
	return r.payload, int(r.r0)
}

// NetWrite records an outbound frame. code: 0 ok, 1 temporary error, 2 permanent error, 3 closed.
func NetWrite(b []byte) int {
	return int(call(opNetWrite, 0, 0, 0, 0, b).r0)
}

// NetInject queues an inbound frame for delivery delay ns from now.
func NetInject(delay int64, b []byte) {
	call(opNetInject, delay, 0, 0, 0, b)
}

// OutFrame is an outbound frame as recorded at the instant of WriteTo.
type OutFrame struct {
	Seq  int64
	Time int64
	Task int64
	Data []byte
}

// NetPoll returns the next outbound frame not yet consumed by the harness.
func NetPoll() (OutFrame, bool) {
	r := call(opNetPoll, 0, 0, 0, 0, nil)
	if r.r0 == 0 {
		return OutFrame{}, false
	}
	p := r.payload
	return OutFrame{Seq: getInt(p, 0), Time: getInt(p, 1), Task: getInt(p, 2), Data: p[24:]}, true
}

// NetClose marks the connection closed (blocked and later reads fail).
func NetClose() { call(opNetClose, 0, 0, 0, 0, nil) }

// Net control verbs
const (
	NetCtlReadErrTemp  = 1 // next n reads fail with a temporary error
	NetCtlReadErrPerm  = 2 // next read fails permanently
	NetCtlWriteErrTemp = 3 // next n writes fail with a temporary error
	NetCtlWriteErrPerm = 4 // all writes fail from now (n>0) or stop failing (n==0)
	NetCtlPendingIn    = 5 // query: number of inbound frames not yet read
	NetCtlReaderParked = 6 // query: 1 if a reader is blocked in NetRead
	NetCtlReopen       = 7 // a new socket: clears the closed flag, pending faults and the inbound queue
)

func NetCtl(verb int, n int) int64 {
	return call(opNetCtl, int64(verb), int64(n), 0, 0, nil).r0
}

// FS codes
const (
	FSOK       = 0
	FSNotExist = 1
	FSEIO      = 2
	FSENOSPC   = 3
)

func FSRead(name string) ([]byte, int) {
	r := call(opFSRead, 0, 0, 0, 0, []byte(name))
	return r.payload, int(r.r0)
}

func FSWrite(name string, data []byte) int {
	p := make([]byte, 0, len(name)+1+len(data))
	p = append(p, name...)
	p = append(p, 0)
	p = append(p, data...)
	return int(call(opFSWrite, 0, 0, 0, 0, p).r0)
}

// FS control verbs (harness only)
const (
	FSCtlGet        = 1 // payload name -> content (r0 = 1 if exists)
	FSCtlSet        = 2 // payload name\0content: replace durable content
	FSCtlRemove     = 3
	FSCtlFailWrite  = 4 // a = k: the k-th write from now fails; b = code (FSENOSPC: short write of c bytes kept; FSEIO: nothing written, old content kept)
	FSCtlFailRead   = 5 // a = k: the k-th read from now fails with EIO
	FSCtlWriteCount = 6 // r0 = number of writes so far
	FSCtlHistory    = 7 // a = index -> payload name\0content of the idx-th write (r0=1 if exists)
	FSCtlReset      = 8 // remove every file
)

// FSRename renames a file atomically.
func FSRename(from, to string) int {
	p := append(append([]byte(from), 0), to...)
	return int(call(opFSRename, 0, 0, 0, 0, p).r0)
}

// FSRemove removes a file.
func FSRemove(name string) int { return int(call(opFSRemove, 0, 0, 0, 0, []byte(name)).r0) }

// FSOp is one recorded mutation of the simulated disk.
type FSOp struct {
	Kind    string // write, rename, remove
	Name    string
	To      string
	Data    []byte
	Prev    []byte
	HadPrev bool
}

// FSOps returns the complete mutation history of the simulated disk.
func FSOps() []FSOp {
	var out []FSOp
	for i := 0; ; i++ {
		r := call(opFSCtl, FSCtlHistory, int64(i), 0, 0, nil)
		if r.r0 != 1 {
			return out
		}
		p := r.payload
		j := 0
		for j < len(p) && p[j] != 0 {
			j++
		}
		switch r.r1 {
		case -2:
			out = append(out, FSOp{Kind: "rename", Name: string(p[:j]), To: string(p[j+1:])})
		case -3:
			out = append(out, FSOp{Kind: "remove", Name: string(p)})
		default:
			rest := p[j+1:]
			op := FSOp{Kind: "write", Name: string(p[:j]), Data: rest}
			if r.r1 >= 0 {
				n := int(r.r1)
				op.Data, op.Prev, op.HadPrev = rest[:len(rest)-n], rest[len(rest)-n:], true
			}
			out = append(out, op)
		}
	}
}

func FSCtl(verb int, a, b, c int64, payload []byte) (int64, []byte) {
	r := call(opFSCtl, int64(verb), a, b, c, payload)
	return r.r0, r.payload
}

// FSHist returns the idx-th write to the simulated disk: its data and the durable content
// it replaced.
func FSHist(idx int) (name string, data, prev []byte, hadPrev, ok bool) {
	r := call(opFSCtl, FSCtlHistory, int64(idx), 0, 0, nil)
	if r.r0 != 1 {
		return "", nil, nil, false, false
	}
	p := r.payload
	i := 0
	for i < len(p) && p[i] != 0 {
		i++
	}
	name = string(p[:i])
	rest := p[i+1:]
	if r.r1 >= 0 {
		n := int(r.r1)
		return name, rest[:len(rest)-n], rest[len(rest)-n:], true, true
	}
	return name, rest, nil, false, true
}

// Deadline tells the kernel the virtual time after which the run must not continue (safety net).
func Deadline(ns int64) { call(opDeadline, ns, 0, 0, 0, nil) }
