package simrt

import (
	"fmt"
	"net/netip"
	"reflect"
	"sort"
)

func sortKeys[K comparable](keys []K) {
	if len(keys) < 2 {
		return
	}
	if _, ok := any(keys[0]).(netip.Addr); ok {
		sort.Slice(keys, func(i, j int) bool { return any(keys[i]).(netip.Addr).Compare(any(keys[j]).(netip.Addr)) < 0 })
		return
	}
	switch reflect.TypeOf(keys[0]).Kind() {
	case reflect.String:
		sort.Slice(keys, func(i, j int) bool { return reflect.ValueOf(keys[i]).String() < reflect.ValueOf(keys[j]).String() })
	case reflect.Int, reflect.Int8, reflect.Int16, reflect.Int32, reflect.Int64:
		sort.Slice(keys, func(i, j int) bool { return reflect.ValueOf(keys[i]).Int() < reflect.ValueOf(keys[j]).Int() })
	case reflect.Uint, reflect.Uint8, reflect.Uint16, reflect.Uint32, reflect.Uint64, reflect.Uintptr:
		sort.Slice(keys, func(i, j int) bool { return reflect.ValueOf(keys[i]).Uint() < reflect.ValueOf(keys[j]).Uint() })
	default:
		strs := make(map[K]string, len(keys))
		for _, k := range keys {
			strs[k] = fmt.Sprintf("%T|%v", k, k)
		}
		sort.Slice(keys, func(i, j int) bool { return strs[keys[i]] < strs[keys[j]] })
	}
}
