// Package simioutil replaces io/ioutil in rewritten code: ReadFile and WriteFile go to the
// simulated disk.
package simioutil

import (
	"io/fs"
	"io/ioutil"
	"os"
	"syscall"

	"verif/sim/simrt"
)

var (
	Discard   = ioutil.Discard
	NopCloser = ioutil.NopCloser
	ReadAll   = ioutil.ReadAll
	ReadDir   = ioutil.ReadDir
	TempDir   = ioutil.TempDir
	TempFile  = ioutil.TempFile
)

func ReadFile(name string) ([]byte, error) {
	if !simrt.Active() {
		return ioutil.ReadFile(name)
	}
	data, code := simrt.FSRead(name)
	switch code {
	case simrt.FSOK:
		if data == nil {
			data = []byte{}
		}
		return data, nil
	case simrt.FSNotExist:
		return nil, &fs.PathError{Op: "open", Path: name, Err: syscall.ENOENT}
	default:
		return nil, &fs.PathError{Op: "read", Path: name, Err: syscall.EIO}
	}
}

func WriteFile(name string, data []byte, perm os.FileMode) error {
	if !simrt.Active() {
		return ioutil.WriteFile(name, data, perm)
	}
	switch simrt.FSWrite(name, data) {
	case simrt.FSOK:
		return nil
	case simrt.FSENOSPC:
		return &fs.PathError{Op: "write", Path: name, Err: syscall.ENOSPC}
	default:
		return &fs.PathError{Op: "write", Path: name, Err: syscall.EIO}
	}
}

// Rename replaces os.Rename in rewritten code.
func Rename(from, to string) error {
	if !simrt.Active() {
		return os.Rename(from, to)
	}
	if simrt.FSRename(from, to) != simrt.FSOK {
		return &os.LinkError{Op: "rename", Old: from, New: to, Err: syscall.ENOENT}
	}
	return nil
}

// Remove replaces os.Remove in rewritten code.
func Remove(name string) error {
	if !simrt.Active() {
		return os.Remove(name)
	}
	if simrt.FSRemove(name) != simrt.FSOK {
		return &fs.PathError{Op: "remove", Path: name, Err: syscall.ENOENT}
	}
	return nil
}
