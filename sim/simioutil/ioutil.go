// Package simioutil replaces io/ioutil in rewritten code: ReadFile and WriteFile go to the
// simulated disk.
package simioutil

import (
	"io"
	"io/fs"
	"io/ioutil"
	"os"
	"syscall"

	"verif/sim/simrt"
)

var (
	Discard   = ioutil.Discard
	NopCloser = ioutil.NopCloser
	ReadAll   = ioutil.ReadAll
	ReadDir   = ioutil.ReadDir
	TempDir   = ioutil.TempDir
	TempFile  = ioutil.TempFile
)

func ReadFile(name string) ([]byte, error) {
	if !simrt.Active() {
		return ioutil.ReadFile(name)
	}
	data, code := simrt.FSRead(name)
	switch code {
	case simrt.FSOK:
		if data == nil {
			data = []byte{}
		}
		return data, nil
	case simrt.FSNotExist:
		return nil, &fs.PathError{Op: "open", Path: name, Err: syscall.ENOENT}
	default:
		return nil, &fs.PathError{Op: "read", Path: name, Err: syscall.EIO}
	}
}

func WriteFile(name string, data []byte, perm os.FileMode) error {
	if !simrt.Active() {
		return ioutil.WriteFile(name, data, perm)
	}
	switch simrt.FSWrite(name, data) {
	case simrt.FSOK:
		return nil
	case simrt.FSENOSPC:
		return &fs.PathError{Op: "write", Path: name, Err: syscall.ENOSPC}
	default:
		return &fs.PathError{Op: "write", Path: name, Err: syscall.EIO}
	}
}

// Rename replaces os.Rename in rewritten code.
func Rename(from, to string) error {
	if !simrt.Active() {
		return os.Rename(from, to)
	}
	if simrt.FSRename(from, to) != simrt.FSOK {
		return &os.LinkError{Op: "rename", Old: from, New: to, Err: syscall.ENOENT}
	}
	return nil
}

// Remove replaces os.Remove in rewritten code.
func Remove(name string) error {
	if !simrt.Active() {
		return os.Remove(name)
	}
	if simrt.FSRemove(name) != simrt.FSOK {
		return &fs.PathError{Op: "remove", Path: name, Err: syscall.ENOENT}
	}
	return nil
}

// File replaces *os.File for files of the lease package (os.OpenFile, os.Create, os.Open are
// rewritten to the functions below). Every mutation goes to the simulated disk as one recorded
// operation carrying the complete new content, so crash points can be enumerated over it.
type File struct {
	name   string
	flag   int
	pos    int
	closed bool
	real   *os.File
}

func OpenFile(name string, flag int, perm os.FileMode) (*File, error) {
	if !simrt.Active() {
		f, err := os.OpenFile(name, flag, perm)
		if err != nil {
			return nil, err
		}
		return &File{name: name, real: f}, nil
	}
	_, code := simrt.FSRead(name)
	switch {
	case code == simrt.FSNotExist && flag&os.O_CREATE == 0:
		return nil, &fs.PathError{Op: "open", Path: name, Err: syscall.ENOENT}
	case code == simrt.FSOK && flag&os.O_CREATE != 0 && flag&os.O_EXCL != 0:
		return nil, &fs.PathError{Op: "open", Path: name, Err: syscall.EEXIST}
	case code == simrt.FSEIO:
		return nil, &fs.PathError{Op: "open", Path: name, Err: syscall.EIO}
	}
	if code == simrt.FSNotExist || flag&os.O_TRUNC != 0 {
		if c := simrt.FSWrite(name, nil); c != simrt.FSOK {
			return nil, &fs.PathError{Op: "open", Path: name, Err: syscall.EIO}
		}
	}
	return &File{name: name, flag: flag}, nil
}

func Create(name string) (*File, error) {
	return OpenFile(name, os.O_RDWR|os.O_CREATE|os.O_TRUNC, 0666)
}

func Open(name string) (*File, error) { return OpenFile(name, os.O_RDONLY, 0) }

func (f *File) Name() string { return f.name }

func (f *File) Write(b []byte) (int, error) {
	if f.real != nil {
		return f.real.Write(b)
	}
	if f.closed {
		return 0, fs.ErrClosed
	}
	if f.flag&(os.O_WRONLY|os.O_RDWR) == 0 {
		return 0, &fs.PathError{Op: "write", Path: f.name, Err: syscall.EBADF}
	}
	cur, code := simrt.FSRead(f.name)
	if code != simrt.FSOK {
		cur = nil
	}
	if f.flag&os.O_APPEND != 0 {
		f.pos = len(cur)
	}
	n := f.pos + len(b)
	if n < len(cur) {
		n = len(cur) // bytes beyond the written range stay (no truncation)
	}
	out := make([]byte, n)
	copy(out, cur)
	copy(out[f.pos:], b)
	switch simrt.FSWrite(f.name, out) {
	case simrt.FSOK:
		f.pos += len(b)
		return len(b), nil
	case simrt.FSENOSPC:
		return 0, &fs.PathError{Op: "write", Path: f.name, Err: syscall.ENOSPC}
	default:
		return 0, &fs.PathError{Op: "write", Path: f.name, Err: syscall.EIO}
	}
}

func (f *File) WriteString(s string) (int, error) { return f.Write([]byte(s)) }

func (f *File) Read(b []byte) (int, error) {
	if f.real != nil {
		return f.real.Read(b)
	}
	cur, code := simrt.FSRead(f.name)
	if code != simrt.FSOK {
		return 0, &fs.PathError{Op: "read", Path: f.name, Err: syscall.EIO}
	}
	if f.pos >= len(cur) {
		return 0, io.EOF
	}
	n := copy(b, cur[f.pos:])
	f.pos += n
	return n, nil
}

func (f *File) Seek(offset int64, whence int) (int64, error) {
	if f.real != nil {
		return f.real.Seek(offset, whence)
	}
	switch whence {
	case io.SeekStart:
		f.pos = int(offset)
	case io.SeekCurrent:
		f.pos += int(offset)
	case io.SeekEnd:
		cur, _ := simrt.FSRead(f.name)
		f.pos = len(cur) + int(offset)
	}
	if f.pos < 0 {
		f.pos = 0
	}
	return int64(f.pos), nil
}

func (f *File) Truncate(size int64) error {
	if f.real != nil {
		return f.real.Truncate(size)
	}
	cur, _ := simrt.FSRead(f.name)
	out := make([]byte, size)
	copy(out, cur)
	if simrt.FSWrite(f.name, out) != simrt.FSOK {
		return &fs.PathError{Op: "truncate", Path: f.name, Err: syscall.EIO}
	}
	return nil
}

// Sync is a no-op: the simulated disk makes every recorded operation durable in order.
func (f *File) Sync() error {
	if f.real != nil {
		return f.real.Sync()
	}
	return nil
}

func (f *File) Close() error {
	if f.real != nil {
		return f.real.Close()
	}
	if f.closed {
		return fs.ErrClosed
	}
	f.closed = true
	return nil
}
