// Package simsync replaces package sync in rewritten code. Blocking is decided by the
// simulator kernel; the embedded real primitive is taken after the kernel's grant (it is then
// always uncontended) so that the race detector sees exactly the program's own edges.
package simsync

import (
	"reflect"
	"sync"
	"unsafe"

	"verif/sim/simrt"
)

type Locker = sync.Locker
type Map = sync.Map

func OnceFunc(f func()) func() { var o Once; return func() { o.Do(f) } }

type Mutex struct {
	id   uint32
	held int32
	real sync.Mutex
}

//go:norace
func (m *Mutex) lockID() uint32 {
	if m.id == 0 {
		m.id = simrt.NewID()
	}
	return m.id
}

//go:norace
func (m *Mutex) setHeld(v int32) int32 { o := m.held; m.held = v; return o }

func (m *Mutex) Lock() {
	if !simrt.Active() {
		m.real.Lock()
		m.setHeld(1)
		return
	}
	simrt.Lock(m.lockID(), simrt.ModeW, 0)
	m.real.Lock()
	m.setHeld(1)
}

func (m *Mutex) TryLock() bool {
	if !simrt.Active() {
		if m.real.TryLock() {
			m.setHeld(1)
			return true
		}
		return false
	}
	if !simrt.TryLock(m.lockID(), simrt.ModeW) {
		return false
	}
	m.real.Lock()
	m.setHeld(1)
	return true
}

func (m *Mutex) Unlock() {
	if m.setHeld(0) == 0 {
		panic("sync: unlock of unlocked mutex")
	}
	m.real.Unlock()
	if simrt.Active() {
		simrt.Unlock(m.lockID(), simrt.ModeW)
	}
}

type RWMutex struct {
	id   uint32
	w    int32
	r    int32
	real sync.RWMutex
}

//go:norace
func (m *RWMutex) lockID() uint32 {
	if m.id == 0 {
		m.id = simrt.NewID()
	}
	return m.id
}

//go:norace
func (m *RWMutex) addW(d int32) int32 { m.w += d; return m.w }

//go:norace
func (m *RWMutex) addR(d int32) int32 { m.r += d; return m.r }

func (m *RWMutex) Lock() {
	if simrt.Active() {
		simrt.Lock(m.lockID(), simrt.ModeW, 0)
	}
	m.real.Lock()
	m.addW(1)
}

func (m *RWMutex) TryLock() bool {
	if simrt.Active() {
		if !simrt.TryLock(m.lockID(), simrt.ModeW) {
			return false
		}
		m.real.Lock()
		m.addW(1)
		return true
	}
	if m.real.TryLock() {
		m.addW(1)
		return true
	}
	return false
}

func (m *RWMutex) Unlock() {
	if m.addW(-1) < 0 {
		m.addW(1)
		panic("sync: Unlock of unlocked RWMutex")
	}
	m.real.Unlock()
	if simrt.Active() {
		simrt.Unlock(m.lockID(), simrt.ModeW)
	}
}

func (m *RWMutex) RLock() {
	if simrt.Active() {
		simrt.Lock(m.lockID(), simrt.ModeR, 0)
	}
	m.real.RLock()
	m.addR(1)
}

func (m *RWMutex) TryRLock() bool {
	if simrt.Active() {
		if !simrt.TryLock(m.lockID(), simrt.ModeR) {
			return false
		}
		m.real.RLock()
		m.addR(1)
		return true
	}
	if m.real.TryRLock() {
		m.addR(1)
		return true
	}
	return false
}

func (m *RWMutex) RUnlock() {
	if m.addR(-1) < 0 {
		m.addR(1)
		panic("sync: RUnlock of unlocked RWMutex")
	}
	m.real.RUnlock()
	if simrt.Active() {
		simrt.Unlock(m.lockID(), simrt.ModeR)
	}
}

type rlocker RWMutex

func (r *rlocker) Lock()   { (*RWMutex)(r).RLock() }
func (r *rlocker) Unlock() { (*RWMutex)(r).RUnlock() }

func (m *RWMutex) RLocker() Locker { return (*rlocker)(m) }

// Once
type Once struct {
	m    Mutex
	done bool
}

func (o *Once) Do(f func()) {
	o.m.Lock()
	defer o.m.Unlock()
	if !o.done {
		defer func() { o.done = true }()
		f()
	}
}

// WaitGroup
type WaitGroup struct {
	m Mutex
	n int
}

func (wg *WaitGroup) Add(d int) {
	wg.m.Lock()
	wg.n += d
	neg := wg.n < 0
	wg.m.Unlock()
	if neg {
		panic("sync: negative WaitGroup counter")
	}
	simrt.Progress()
}
func (wg *WaitGroup) Done() { wg.Add(-1) }
func (wg *WaitGroup) Wait() {
	for {
		// the check and the park must not be separated by a scheduling point, or a Done in
		// between would be a lost wake-up: read the counter without taking the lock
		if wg.zero() {
			wg.m.Lock() // happens-before edge from the last Done
			wg.m.Unlock()
			return
		}
		if !simrt.Active() {
			continue
		}
		simrt.Park(-6)
	}
}

//go:norace
func (wg *WaitGroup) zero() bool { return wg.n == 0 }

// Cond
type Cond struct {
	L      Locker
	hb     sync.Mutex
	wait   uint64
	notify uint64
}

func NewCond(l Locker) *Cond { return &Cond{L: l} }

//go:norace
func (c *Cond) ticket() uint64 { t := c.wait; c.wait++; return t }

//go:norace
func (c *Cond) ready(t uint64) bool { return t < c.notify }

//go:norace
func (c *Cond) sig(all bool) {
	if all {
		c.notify = c.wait
	} else if c.notify < c.wait {
		c.notify++
	}
}

func (c *Cond) Wait() {
	t := c.ticket()
	c.L.Unlock()
	for !c.ready(t) {
		simrt.Park(-7)
	}
	c.hb.Lock()
	c.hb.Unlock()
	c.L.Lock()
}
func (c *Cond) Signal() {
	c.hb.Lock()
	c.hb.Unlock()
	c.sig(false)
	simrt.Progress()
}
func (c *Cond) Broadcast() {
	c.hb.Lock()
	c.hb.Unlock()
	c.sig(true)
	simrt.Progress()
}

// Pool is a deterministic LIFO pool. Get poisons byte-array buffers with a pattern, which
// is a legal behaviour of sync.Pool standing in for stale data of an earlier user.
type Pool struct {
	New   func() any
	n     int
	items [64]any
	known [64]poolObj
	nk    int
	gen   byte
}

type poolObj struct {
	obj any
	hb  *sync.Mutex
}

//go:norace
func (p *Pool) pop() (any, *sync.Mutex) {
	if p.n == 0 {
		return nil, nil
	}
	p.n--
	x := p.items[p.n]
	p.items[p.n] = nil
	return x, p.hbFor(x, false)
}

//go:norace
func (p *Pool) push(x any) *sync.Mutex {
	if p.n == len(p.items) {
		return nil // dropped, as sync.Pool may
	}
	h := p.hbFor(x, true)
	p.items[p.n] = x
	p.n++
	return h
}

//go:norace
func (p *Pool) hbFor(x any, create bool) *sync.Mutex {
	if !reflect.TypeOf(x).Comparable() {
		return nil
	}
	for i := 0; i < p.nk; i++ {
		if p.known[i].obj == x {
			return p.known[i].hb
		}
	}
	if !create || p.nk == len(p.known) {
		return nil
	}
	p.known[p.nk] = poolObj{obj: x, hb: new(sync.Mutex)}
	p.nk++
	return p.known[p.nk-1].hb
}

//go:norace
func (p *Pool) nextGen() byte { p.gen++; return p.gen }

func (p *Pool) Get() any {
	simrt.Y(-30)
	x, hb := p.pop()
	if hb != nil {
		hb.Lock()
		hb.Unlock()
	}
	if x == nil {
		if p.New == nil {
			return nil
		}
		x = p.New()
	}
	if simrt.Active() {
		poison(x, p.nextGen())
	}
	return x
}

func (p *Pool) Put(x any) {
	if x == nil {
		return
	}
	simrt.Y(-31)
	// Whoever puts a buffer back gives it up: scribble over it at once, so that a frame encoded
	// in it and sent afterwards (use after Put) goes out as garbage instead of looking fine until
	// another task happens to take the buffer in between.
	if simrt.Active() {
		poison(x, p.nextGen())
	}
	// the release edge must be published before the object becomes visible
	if hb := p.hbForPut(x); hb != nil {
		hb.Lock()
		hb.Unlock()
	}
	p.push(x)
}

//go:norace
func (p *Pool) hbForPut(x any) *sync.Mutex { return p.hbFor(x, true) }

func poison(x any, gen byte) {
	v := reflect.ValueOf(x)
	if v.Kind() != reflect.Ptr || v.IsNil() {
		return
	}
	e := v.Elem()
	if e.Kind() != reflect.Array || e.Type().Elem().Kind() != reflect.Uint8 {
		return
	}
	b := unsafe.Slice((*byte)(v.UnsafePointer()), e.Len())
	for i := range b {
		b[i] = 0xA5 ^ gen ^ byte(i*7)
	}
}
