// Package simrand replaces math/rand in rewritten code: top-level functions draw from the
// simulator's choice tape.
package simrand

import (
	"math/rand"

	"verif/sim/simrt"
)

type (
	Rand     = rand.Rand
	Source   = rand.Source
	Source64 = rand.Source64
	Zipf     = rand.Zipf
)

var (
	New       = rand.New
	NewSource = rand.NewSource
	NewZipf   = rand.NewZipf
)

const kind = 5

type tapeSource struct{}

func (tapeSource) Int63() int64 {
	if !simrt.Active() {
		return 0
	}
	hi := int64(simrt.Choose(1<<31-1, kind))
	lo := int64(simrt.Choose(1<<31-1, kind))
	return (hi<<32 | lo<<1) & (1<<63 - 1)
}
func (tapeSource) Seed(int64) {}

var global = rand.New(tapeSource{})

func Seed(int64) {}

func Intn(n int) int {
	if n <= 0 {
		panic("invalid argument to Intn")
	}
	if n <= 1<<31-1 && simrt.Active() {
		return simrt.Choose(n, kind)
	}
	return global.Intn(n)
}
func Int31n(n int32) int32 {
	if n <= 0 {
		panic("invalid argument to Int31n")
	}
	if simrt.Active() {
		return int32(simrt.Choose(int(n), kind))
	}
	return global.Int31n(n)
}
func Int63n(n int64) int64 {
	if n <= 0 {
		panic("invalid argument to Int63n")
	}
	if n <= 1<<31-1 && simrt.Active() {
		return int64(simrt.Choose(int(n), kind))
	}
	return global.Int63n(n)
}
func Int() int                           { return global.Int() }
func Int31() int32                       { return global.Int31() }
func Int63() int64                       { return global.Int63() }
func Uint32() uint32                     { return global.Uint32() }
func Uint64() uint64                     { return global.Uint64() }
func Float32() float32                   { return global.Float32() }
func Float64() float64                   { return global.Float64() }
func NormFloat64() float64               { return global.NormFloat64() }
func ExpFloat64() float64                { return global.ExpFloat64() }
func Perm(n int) []int                   { return global.Perm(n) }
func Shuffle(n int, swap func(i, j int)) { global.Shuffle(n, swap) }
func Read(p []byte) (int, error)         { return global.Read(p) }
