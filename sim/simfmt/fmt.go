// Package simfmt replaces fmt in rewritten code. Printing to standard output is formatted
// (so that the arguments are still read) and discarded: os.Stdout's internal locking would
// otherwise add happens-before edges between all printing goroutines.
package simfmt

import "fmt"

type (
	Formatter  = fmt.Formatter
	GoStringer = fmt.GoStringer
	ScanState  = fmt.ScanState
	Scanner    = fmt.Scanner
	State      = fmt.State
	Stringer   = fmt.Stringer
)

var (
	Append       = fmt.Append
	Appendf      = fmt.Appendf
	Appendln     = fmt.Appendln
	Errorf       = fmt.Errorf
	FormatString = fmt.FormatString
	Fprint       = fmt.Fprint
	Fprintf      = fmt.Fprintf
	Fprintln     = fmt.Fprintln
	Fscan        = fmt.Fscan
	Fscanf       = fmt.Fscanf
	Fscanln      = fmt.Fscanln
	Scan         = fmt.Scan
	Scanf        = fmt.Scanf
	Scanln       = fmt.Scanln
	Sprint       = fmt.Sprint
	Sprintf      = fmt.Sprintf
	Sprintln     = fmt.Sprintln
	Sscan        = fmt.Sscan
	Sscanf       = fmt.Sscanf
	Sscanln      = fmt.Sscanln
)

func Print(a ...any) (int, error)                 { return len(fmt.Sprint(a...)), nil }
func Printf(format string, a ...any) (int, error) { return len(fmt.Sprintf(format, a...)), nil }
func Println(a ...any) (int, error)               { return len(fmt.Sprintln(a...)), nil }
