// Package model holds the executable reference models the oracles compare against. They are
// written from the property statements, not from the library's code.
package model

import (
	"fmt"
	"net/netip"
	"sort"
	"time"
)

type MAC [6]byte

func (m MAC) String() string {
	return fmt.Sprintf("%02x:%02x:%02x:%02x:%02x:%02x", m[0], m[1], m[2], m[3], m[4], m[5])
}

// Name sources
const (
	NDHCP = iota
	NMDNS
	NSSDP
	NLLMNR
	NNBNS
	NumNames
)

type Host struct {
	MAC      MAC
	IP       netip.Addr
	Online   bool
	LastSeen time.Duration // virtual time of the last frame/update
	Names    [NumNames]string
	Pending  bool // a notification is owed for this host
	Never    bool // our own entry: never ages
}

type MACEnt struct {
	MAC    MAC
	Names  [NumNames]string
	Hosts  []*Host // creation order
	Router bool
	Offer  netip.Addr // address recorded by the last DHCP update (lost with the entry)
}

// Notif is an expected notification.
type Notif struct {
	MAC    MAC
	IP     netip.Addr
	Online bool
	Names  [NumNames]string
	Router bool
}

func (n Notif) String() string {
	return fmt.Sprintf("{%s %s online=%v names=%q router=%v}", n.MAC, n.IP, n.Online, n.Names, n.Router)
}

// Hosts is the host-tracking model of C04/C06.
type Hosts struct {
	Home      netip.Prefix
	Own       MAC
	RouterMAC MAC
	Offline   time.Duration
	Purge     time.Duration
	ByIP      map[netip.Addr]*Host
	ByMAC     map[MAC]*MACEnt
	Start     time.Duration // session creation; purge ticks at Start + k*minute
	LastTick  time.Duration
}

func NewHosts(home netip.Prefix, own, router MAC, ownIP, routerIP netip.Addr, offline, purge, start time.Duration) *Hosts {
	h := &Hosts{Home: home, Own: own, RouterMAC: router, Offline: offline, Purge: purge, ByIP: map[netip.Addr]*Host{}, ByMAC: map[MAC]*MACEnt{}, Start: start, LastTick: start}
	o := h.create(own, ownIP, start)
	o.Online, o.Never, o.Pending = true, true, true
	r := h.create(router, routerIP, start)
	r.Online, r.Pending = true, true
	h.ByMAC[router].Router = true
	return h
}

func (h *Hosts) create(mac MAC, ip netip.Addr, now time.Duration) *Host {
	me := h.ByMAC[mac]
	if me == nil {
		me = &MACEnt{MAC: mac}
		h.ByMAC[mac] = me
	}
	x := &Host{MAC: mac, IP: ip, LastSeen: now, Pending: true}
	me.Hosts = append(me.Hosts, x)
	h.ByIP[ip] = x
	return x
}

func (h *Hosts) remove(x *Host) {
	delete(h.ByIP, x.IP)
	me := h.ByMAC[x.MAC]
	for i, y := range me.Hosts {
		if y == x {
			me.Hosts = append(me.Hosts[:i:i], me.Hosts[i+1:]...)
			break
		}
	}
	if len(me.Hosts) == 0 {
		delete(h.ByMAC, x.MAC)
	}
}

// Seen applies "a frame (or DHCP update) showed mac using ip at time now". It returns the
// host and whether this sighting was an online transition.
func (h *Hosts) Seen(mac MAC, ip netip.Addr, now time.Duration) (*Host, bool) {
	x := h.ByIP[ip]
	if x != nil && x.MAC != mac { // the address is claimed by another MAC: re-bind
		h.remove(x)
		x = nil
	}
	if x == nil {
		x = h.create(mac, ip, now)
	}
	if !x.Never {
		x.LastSeen = now
	}
	if x.Online {
		return x, false
	}
	x.Online = true
	x.Pending = true
	if ip.Is4() { // a MAC seen on a new IPv4 address: its other IPv4 addresses go offline
		for _, y := range h.ByMAC[mac].Hosts {
			if y != x && y.IP.Is4() && y.Online {
				y.Online = false
				y.Pending = true
			}
		}
	}
	return x, true
}

// FrameCreatesHost is the creation predicate of C04 for a frame with unicast ether source.
func (h *Hosts) FrameCreatesHost(etherSrc MAC, ip netip.Addr) bool {
	if etherSrc[0]&1 == 1 || etherSrc == h.Own {
		return false
	}
	if ip.Is4() {
		return h.Home.Contains(ip)
	}
	if ip.Is6() {
		if ip.IsLinkLocalUnicast() {
			return true
		}
		return ip.IsGlobalUnicast() && etherSrc != h.RouterMAC
	}
	return false
}

// Notify models Session.Notify for a frame that was attributed to host x; transition says
// whether that frame caused the host's online transition.
func (h *Hosts) Notify(x *Host, transition bool) []Notif {
	var out []Notif
	if x == nil || !x.Pending {
		return nil
	}
	// C06: an address superseded by a new IPv4 address of the same MAC gets its offline
	// notification before the new address's online notification - whichever frame or
	// update made the new address current.
	_ = transition
	if x.Online && x.IP.Is4() {
		for _, y := range h.ByMAC[x.MAC].Hosts {
			if !y.Online && y.Pending {
				y.Pending = false
				out = append(out, h.notif(y))
			}
		}
	}
	x.Pending = false
	out = append(out, h.notif(x))
	return out
}

func (h *Hosts) notif(x *Host) Notif {
	me := h.ByMAC[x.MAC]
	n := Notif{MAC: x.MAC, IP: x.IP, Online: x.Online, Router: me.Router}
	n.Names = me.Names
	n.Names[NLLMNR] = x.Names[NLLMNR]
	return n
}

// NotifKey renders the notification currently owed for x.
func (h *Hosts) NotifKey(x *Host) string { return h.notif(x).String() }

// UpdateName models Host.Update*Name.
func (h *Hosts) UpdateName(x *Host, kind int, name string) bool {
	if name == "" || x.Names[kind] == name {
		return false
	}
	x.Names[kind] = name
	x.Pending = true
	me := h.ByMAC[x.MAC]
	me.Names[kind] = name
	return true
}

// AdvanceTo applies every purge tick in (LastTick, now] and returns the offline
// notifications each tick owes, plus the number of ticks.
func (h *Hosts) AdvanceTo(now time.Duration) ([]Notif, int) {
	var out []Notif
	ticks := 0
	for t := h.LastTick + time.Minute; t <= now; t += time.Minute {
		ticks++
		h.LastTick = t
		var del, off []*Host
		for _, x := range h.sorted() {
			if x.Never {
				continue
			}
			silent := t - x.LastSeen
			if !x.Online && silent > h.Purge {
				del = append(del, x)
				continue
			}
			if x.Online && silent > h.Offline {
				off = append(off, x)
			}
		}
		for _, x := range off {
			x.Online = false
			x.Pending = false
			out = append(out, h.notif(x))
		}
		for _, x := range del {
			h.remove(x)
		}
	}
	return out, ticks
}

// Sorted returns the hosts in address order.
func (h *Hosts) Sorted() []*Host { return h.sorted() }

func (h *Hosts) sorted() []*Host {
	var l []*Host
	for _, x := range h.ByIP {
		l = append(l, x)
	}
	sort.Slice(l, func(i, j int) bool { return l[i].IP.Compare(l[j].IP) < 0 })
	return l
}

// Snapshot renders the visible (MAC, IP, online) triples in canonical order.
func (h *Hosts) Snapshot() []string {
	var s []string
	for _, x := range h.sorted() {
		s = append(s, fmt.Sprintf("%s %s %v", x.MAC, x.IP, x.Online))
	}
	return s
}
