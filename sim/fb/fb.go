// Package fb builds frames for the simulated LAN nodes. It is written from the RFCs and
// shares no code with package packet.
package fb

import (
	"encoding/binary"
	"net/netip"
)

type MAC [6]byte

func (m MAC) Slice() []byte { return append([]byte(nil), m[:]...) }

var Broadcast = MAC{0xff, 0xff, 0xff, 0xff, 0xff, 0xff}

// Sum is the RFC 1071 internet checksum of b (big-endian words), not complemented.
func sum(b []byte, acc uint32) uint32 {
	for i := 0; i+1 < len(b); i += 2 {
		acc += uint32(b[i])<<8 | uint32(b[i+1])
	}
	if len(b)%2 == 1 {
		acc += uint32(b[len(b)-1]) << 8
	}
	return acc
}

func fold(acc uint32) uint16 {
	for acc>>16 != 0 {
		acc = acc&0xffff + acc>>16
	}
	return ^uint16(acc)
}

// Checksum returns the internet checksum of b.
func Checksum(b []byte) uint16 { return fold(sum(b, 0)) }

func Eth(dst, src MAC, etype uint16, payload []byte) []byte {
	b := make([]byte, 14+len(payload))
	copy(b[0:6], dst[:])
	copy(b[6:12], src[:])
	binary.BigEndian.PutUint16(b[12:14], etype)
	copy(b[14:], payload)
	return b
}

func ARP(op uint16, sha MAC, spa netip.Addr, tha MAC, tpa netip.Addr) []byte {
	b := make([]byte, 28)
	binary.BigEndian.PutUint16(b[0:2], 1)
	binary.BigEndian.PutUint16(b[2:4], 0x0800)
	b[4], b[5] = 6, 4
	binary.BigEndian.PutUint16(b[6:8], op)
	copy(b[8:14], sha[:])
	s4 := spa.As4()
	copy(b[14:18], s4[:])
	copy(b[18:24], tha[:])
	t4 := tpa.As4()
	copy(b[24:28], t4[:])
	return b
}

func IPv4(src, dst netip.Addr, proto byte, ttl byte, id uint16, payload []byte) []byte {
	b := make([]byte, 20+len(payload))
	b[0] = 0x45
	binary.BigEndian.PutUint16(b[2:4], uint16(len(b)))
	binary.BigEndian.PutUint16(b[4:6], id)
	b[8] = ttl
	b[9] = proto
	s, d := src.As4(), dst.As4()
	copy(b[12:16], s[:])
	copy(b[16:20], d[:])
	binary.BigEndian.PutUint16(b[10:12], Checksum(b[:20]))
	copy(b[20:], payload)
	return b
}

func IPv6(src, dst netip.Addr, nh byte, hop byte, payload []byte) []byte {
	b := make([]byte, 40+len(payload))
	b[0] = 0x60
	binary.BigEndian.PutUint16(b[4:6], uint16(len(payload)))
	b[6] = nh
	b[7] = hop
	s, d := src.As16(), dst.As16()
	copy(b[8:24], s[:])
	copy(b[24:40], d[:])
	copy(b[40:], payload)
	return b
}

func UDP(sport, dport uint16, payload []byte) []byte {
	b := make([]byte, 8+len(payload))
	binary.BigEndian.PutUint16(b[0:2], sport)
	binary.BigEndian.PutUint16(b[2:4], dport)
	binary.BigEndian.PutUint16(b[4:6], uint16(len(b)))
	copy(b[8:], payload)
	return b
}

// TCP returns a minimal 20-byte TCP header plus payload.
func TCP(sport, dport uint16, payload []byte) []byte {
	b := make([]byte, 20+len(payload))
	binary.BigEndian.PutUint16(b[0:2], sport)
	binary.BigEndian.PutUint16(b[2:4], dport)
	b[12] = 5 << 4
	b[13] = 0x10
	copy(b[20:], payload)
	return b
}

func ICMP4(typ, code byte, rest [4]byte, data []byte) []byte {
	b := make([]byte, 8+len(data))
	b[0], b[1] = typ, code
	copy(b[4:8], rest[:])
	copy(b[8:], data)
	binary.BigEndian.PutUint16(b[2:4], Checksum(b))
	return b
}

func Echo4(typ byte, id, seq uint16, data []byte) []byte {
	var r [4]byte
	binary.BigEndian.PutUint16(r[0:2], id)
	binary.BigEndian.PutUint16(r[2:4], seq)
	return ICMP4(typ, 0, r, data)
}

// ICMP6 builds an ICMPv6 message (body starts after the 4-byte type/code/checksum) and
// fills the checksum over the IPv6 pseudo header.
func ICMP6(src, dst netip.Addr, typ, code byte, body []byte) []byte {
	b := make([]byte, 4+len(body))
	b[0], b[1] = typ, code
	copy(b[4:], body)
	binary.BigEndian.PutUint16(b[2:4], ICMP6Checksum(src, dst, b))
	return b
}

func ICMP6Checksum(src, dst netip.Addr, msg []byte) uint16 {
	s, d := src.As16(), dst.As16()
	acc := sum(s[:], 0)
	acc = sum(d[:], acc)
	var l [8]byte
	binary.BigEndian.PutUint32(l[0:4], uint32(len(msg)))
	l[7] = 58
	acc = sum(l[:], acc)
	acc = sum(msg, acc)
	return fold(acc)
}

func Echo6(src, dst netip.Addr, typ byte, id, seq uint16, data []byte) []byte {
	body := make([]byte, 4+len(data))
	binary.BigEndian.PutUint16(body[0:2], id)
	binary.BigEndian.PutUint16(body[2:4], seq)
	copy(body[4:], data)
	return ICMP6(src, dst, typ, 0, body)
}

// NDOption is a raw neighbour-discovery option; Data excludes the type/len bytes and must
// make the total a multiple of 8.
type NDOption struct {
	Type byte
	Data []byte
}

func ndOptions(opts []NDOption) []byte {
	var b []byte
	for _, o := range opts {
		n := 2 + len(o.Data)
		pad := (8 - n%8) % 8
		b = append(b, o.Type, byte((n+pad)/8))
		b = append(b, o.Data...)
		b = append(b, make([]byte, pad)...)
	}
	return b
}

// RA describes a router advertisement.
type RA struct {
	HopLimit  byte
	Managed   bool
	Other     bool
	Prf       byte // 2-bit preference as on the wire (0 medium, 1 high, 3 low)
	Lifetime  uint16
	Reachable uint32
	Retrans   uint32
	Options   []NDOption
}

func (r RA) Body() []byte {
	b := make([]byte, 12)
	b[0] = r.HopLimit
	if r.Managed {
		b[1] |= 0x80
	}
	if r.Other {
		b[1] |= 0x40
	}
	b[1] |= (r.Prf & 3) << 3
	binary.BigEndian.PutUint16(b[2:4], r.Lifetime)
	binary.BigEndian.PutUint32(b[4:8], r.Reachable)
	binary.BigEndian.PutUint32(b[8:12], r.Retrans)
	return append(b, ndOptions(r.Options)...)
}

func OptSourceLLA(m MAC) NDOption { return NDOption{Type: 1, Data: m[:]} }
func OptTargetLLA(m MAC) NDOption { return NDOption{Type: 2, Data: m[:]} }

func OptPrefix(pfx netip.Prefix, onlink, auto bool, valid, preferred uint32) NDOption {
	d := make([]byte, 30)
	d[0] = byte(pfx.Bits())
	if onlink {
		d[1] |= 0x80
	}
	if auto {
		d[1] |= 0x40
	}
	binary.BigEndian.PutUint32(d[2:6], valid)
	binary.BigEndian.PutUint32(d[6:10], preferred)
	a := pfx.Addr().As16()
	copy(d[14:30], a[:])
	return NDOption{Type: 3, Data: d}
}

func OptMTU(mtu uint32) NDOption {
	d := make([]byte, 6)
	binary.BigEndian.PutUint32(d[2:6], mtu)
	return NDOption{Type: 5, Data: d}
}

func OptRDNSS(lifetime uint32, servers ...netip.Addr) NDOption {
	d := make([]byte, 6)
	binary.BigEndian.PutUint32(d[2:6], lifetime)
	for _, s := range servers {
		a := s.As16()
		d = append(d, a[:]...)
	}
	return NDOption{Type: 25, Data: d}
}

// OptDNSSL is the DNS search list option (RFC 8106): domain names as DNS labels, zero padded.
func OptDNSSL(lifetime uint32, domains ...string) NDOption {
	d := make([]byte, 6)
	binary.BigEndian.PutUint32(d[2:6], lifetime)
	for _, dom := range domains {
		lbl := ""
		for i := 0; i <= len(dom); i++ {
			if i == len(dom) || dom[i] == '.' {
				d = append(d, byte(len(lbl)))
				d = append(d, lbl...)
				lbl = ""
			} else {
				lbl += string(dom[i])
			}
		}
		d = append(d, 0)
	}
	return NDOption{Type: 31, Data: d}
}

// OptRouteInfo is the route information option (RFC 4191) with a full 16-byte prefix.
// OptRouteInfo builds a route information option (RFC 4191) in its shortest form: no prefix
// bytes for /0, eight for up to /64, sixteen beyond. full forces the sixteen-byte form.
func OptRouteInfo(pfx netip.Prefix, prf byte, lifetime uint32, full ...bool) NDOption {
	n := 16
	if len(full) == 0 || !full[0] {
		switch {
		case pfx.Bits() == 0:
			n = 0
		case pfx.Bits() <= 64:
			n = 8
		}
	}
	d := make([]byte, 6+n)
	d[0] = byte(pfx.Bits())
	d[1] = (prf & 3) << 3
	binary.BigEndian.PutUint32(d[2:6], lifetime)
	a := pfx.Addr().As16()
	copy(d[6:], a[:n])
	return NDOption{Type: 24, Data: d}
}

func NS(target netip.Addr, opts []NDOption) []byte {
	b := make([]byte, 20)
	t := target.As16()
	copy(b[4:20], t[:])
	return append(b, ndOptions(opts)...)
}

func NA(router, solicited, override bool, target netip.Addr, opts []NDOption) []byte {
	b := make([]byte, 20)
	if router {
		b[0] |= 0x80
	}
	if solicited {
		b[0] |= 0x40
	}
	if override {
		b[0] |= 0x20
	}
	t := target.As16()
	copy(b[4:20], t[:])
	return append(b, ndOptions(opts)...)
}

// DHCPOpt is one DHCP option.
type DHCPOpt struct {
	Code byte
	Data []byte
}

// DHCP describes a BOOTP/DHCP message.
type DHCP struct {
	Op      byte
	XID     [4]byte
	Secs    uint16
	Flags   uint16
	CIAddr  netip.Addr
	YIAddr  netip.Addr
	SIAddr  netip.Addr
	GIAddr  netip.Addr
	CHAddr  MAC
	Options []DHCPOpt
}

func put4(b []byte, a netip.Addr) {
	if a.Is4() {
		x := a.As4()
		copy(b, x[:])
	}
}

func (d DHCP) Bytes() []byte {
	b := make([]byte, 240)
	b[0] = d.Op
	b[1], b[2] = 1, 6
	copy(b[4:8], d.XID[:])
	binary.BigEndian.PutUint16(b[8:10], d.Secs)
	binary.BigEndian.PutUint16(b[10:12], d.Flags)
	put4(b[12:16], d.CIAddr)
	put4(b[16:20], d.YIAddr)
	put4(b[20:24], d.SIAddr)
	put4(b[24:28], d.GIAddr)
	copy(b[28:34], d.CHAddr[:])
	copy(b[236:240], []byte{99, 130, 83, 99})
	for _, o := range d.Options {
		b = append(b, o.Code, byte(len(o.Data)))
		b = append(b, o.Data...)
	}
	b = append(b, 255)
	for len(b) < 300 {
		b = append(b, 0)
	}
	return b
}

// IPv6 solicited-node multicast address of a.
func SolicitedNode(a netip.Addr) netip.Addr {
	x := a.As16()
	return netip.AddrFrom16([16]byte{0xff, 0x02, 0, 0, 0, 0, 0, 0, 0, 0, 0, 0x01, 0xff, x[13], x[14], x[15]})
}

// MulticastMAC6 is the 33:33 MAC for an IPv6 multicast address.
func MulticastMAC6(a netip.Addr) MAC {
	x := a.As16()
	return MAC{0x33, 0x33, x[12], x[13], x[14], x[15]}
}
