// Package world builds one simulated LAN around a real packet.Session and the real handlers.
package world

import (
	"fmt"
	"net"
	"net/netip"

	"verif/sim/fb"
)

// Config is the per-run configuration (drawn by the scenario generator, stored in replay files).
type Config struct {
	HomeBits      int  `json:"home_bits"`
	NFBits        int  `json:"nf_bits"`
	NFLow         bool `json:"nf_low,omitempty"` // the netfilter subnet is the first (not the last) subnet of NFBits inside home: same network address as home, router inside it
	HostLLA       bool `json:"host_lla"`
	HostGUA       bool `json:"host_gua"`
	ProbeMin      int  `json:"probe_min"`
	OfflineMin    int  `json:"offline_min"`
	PurgeMin      int  `json:"purge_min"`
	ARP           bool `json:"arp"`
	ICMP6         bool `json:"icmp6"`
	DHCP          bool `json:"dhcp"`
	DNS           bool `json:"dns"`
	DHCPMode      int  `json:"dhcp_mode"`
	DNSAlt        bool `json:"dns_alt"`
	LeaseFile     bool `json:"lease_file"`
	Debug         bool `json:"debug"`
	LogErrorsOnly bool `json:"log_errors_only,omitempty"` // loggers at error level (default: info; Debug: debug)
	PreemptN      int  `json:"preempt_n"`
	HintMax       int  `json:"hint_max"`
	StallDen      int  `json:"stall_den"`
	Concurrent    bool `json:"concurrent"`
	// ReuseBuf: the packet loop reads every frame into one buffer and overwrites it with garbage
	// after Parse/ProcessPacket/Notify returned (what a real read loop's next ReadFrom does)
	ReuseBuf bool `json:"reuse_buf"`
}

// MAC indexes
const (
	MOwn = iota
	MRouter
	MC1
	MC2
	MC3
	MC4
	MC5
	MMulticast
	MCtl1
	MCtl2
	NumMAC
)

// Universe is the small address universe of a run.
type Universe struct {
	Home      netip.Prefix
	NF        netip.Prefix
	HostIP    netip.Addr
	RouterIP  netip.Addr
	HomeBcast netip.Addr
	NFBcast   netip.Addr
	MACs      [NumMAC]fb.MAC
	IP4       []netip.Addr // indexable IPv4 universe
	IP4Name   []string
	HostLLA   netip.Addr
	HostGUA   netip.Addr
	RouterLLA netip.Addr
	AltDNS    netip.Addr
}

func lastAddr(p netip.Prefix) netip.Addr {
	a := p.Masked().Addr().As4()
	bits := p.Bits()
	for i := 0; i < 4; i++ {
		for b := 0; b < 8; b++ {
			if i*8+b >= bits {
				a[i] |= 1 << (7 - b)
			}
		}
	}
	return netip.AddrFrom4(a)
}

// AddN returns a+n.
func AddN(a netip.Addr, n int) netip.Addr {
	x := a.As4()
	v := uint32(x[0])<<24 | uint32(x[1])<<16 | uint32(x[2])<<8 | uint32(x[3])
	v += uint32(n)
	return netip.AddrFrom4([4]byte{byte(v >> 24), byte(v >> 16), byte(v >> 8), byte(v)})
}

// NewUniverse derives the universe from the prefix lengths.
func NewUniverse(c Config) *Universe {
	u := &Universe{}
	u.Home = netip.PrefixFrom(netip.MustParseAddr("192.168.0.0"), c.HomeBits)
	hb := lastAddr(u.Home)
	u.HomeBcast = hb
	// the netfilter subnet is the last subnet of NFBits inside home
	nfBase := netip.PrefixFrom(hb, c.NFBits).Masked().Addr()
	if c.NFLow {
		nfBase = u.Home.Addr()
	}
	u.NF = netip.PrefixFrom(nfBase, c.NFBits)
	u.NFBcast = lastAddr(u.NF)
	u.HostIP = AddN(nfBase, 1)
	u.RouterIP = AddN(u.Home.Addr(), 1)
	if c.NFLow {
		u.HostIP = AddN(nfBase, 2) // +1 is the router
	}
	u.MACs[MOwn] = fb.MAC{0x02, 0, 0, 0, 0, 0x01}
	u.MACs[MRouter] = fb.MAC{0x02, 0, 0, 0, 0, 0x02}
	for i := 0; i < 5; i++ {
		u.MACs[MC1+i] = fb.MAC{0x02, 0, 0, 0, 0x01, byte(i + 1)}
	}
	u.MACs[MMulticast] = fb.MAC{0x01, 0x00, 0x5e, 0, 0, 0xfb}
	u.MACs[MCtl1] = fb.MAC{0x02, 0, 0, 0, 0x02, 0x01}
	u.MACs[MCtl2] = fb.MAC{0x02, 0, 0, 0, 0x02, 0x02}
	u.HostLLA = netip.MustParseAddr("fe80::1:1")
	u.HostGUA = netip.MustParseAddr("2001:db8::1:1")
	u.RouterLLA = netip.MustParseAddr("fe80::2:1")
	u.AltDNS = netip.MustParseAddr("9.9.9.9")
	add := func(a netip.Addr, n string) {
		u.IP4 = append(u.IP4, a)
		u.IP4Name = append(u.IP4Name, n)
	}
	add(netip.MustParseAddr("0.0.0.0"), "zero")           // 0
	add(netip.MustParseAddr("255.255.255.255"), "bcast")  // 1
	add(u.RouterIP, "router")                             // 2
	add(u.HostIP, "host")                                 // 3
	add(u.Home.Addr(), "home-net")                        // 4
	add(u.HomeBcast, "home-bcast")                        // 5
	add(u.NF.Addr(), "nf-net")                            // 6
	add(netip.MustParseAddr("8.8.8.8"), "off-lan")        // 7
	add(netip.MustParseAddr("10.1.2.3"), "off-lan2")      // 8
	add(netip.MustParseAddr("224.0.0.251"), "mcast")      // 9
	add(netip.MustParseAddr("169.254.7.7"), "linklocal4") // 10
	// a handful of home addresses below the netfilter subnet and a few inside it
	for i := 2; i <= 6; i++ {
		a := AddN(u.Home.Addr(), i)
		if c.NFLow { // home addresses outside the netfilter subnet are above it
			a = AddN(u.NFBcast, i-1)
		}
		if u.Home.Contains(a) && a != u.HomeBcast && a != u.HostIP && a != u.RouterIP {
			add(a, fmt.Sprintf("home+%d", i))
		}
	}
	for i := 2; i <= 5; i++ {
		a := AddN(u.NF.Addr(), i)
		if u.NF.Contains(a) && a != u.NFBcast && a != u.HostIP && a != u.RouterIP {
			add(a, fmt.Sprintf("nf+%d", i))
		}
	}
	return u
}

const FirstClientIP4 = 11 // index of the first ordinary home address in IP4

// IP6 returns the idx-th IPv6 address of MAC index m: 0,1 link-local; 2,3 global.
func (u *Universe) IP6(m, idx int) netip.Addr {
	switch idx {
	case 0, 1:
		return netip.MustParseAddr(fmt.Sprintf("fe80::%x:%x", m+1, idx+1))
	case 2, 3:
		return netip.MustParseAddr(fmt.Sprintf("2001:db8::%x:%x", m+1, idx-1))
	case 4:
		return netip.MustParseAddr("::")
	case 6:
		// an IPv4-mapped address in an IPv6 header: unusual, legal, and a different table key from
		// the IPv4 address it embeds
		a := AddN(u.Home.Addr(), 2+m%3).As4()
		return netip.AddrFrom16([16]byte{10: 0xff, 11: 0xff, 12: a[0], 13: a[1], 14: a[2], 15: a[3]})
	default:
		return netip.MustParseAddr("ff02::1")
	}
}

func HW(m fb.MAC) net.HardwareAddr { return net.HardwareAddr(m.Slice()) }

func (u *Universe) MACIndex(m net.HardwareAddr) int {
	for i := range u.MACs {
		if len(m) == 6 && [6]byte(m) == u.MACs[i] {
			return i
		}
	}
	return -1
}
