package world

import (
	"fmt"
	"io"
	"net"
	"net/netip"
	"strings"
	"time"

	"github.com/irai/packet"
	"github.com/irai/packet/fastlog"
	arp "github.com/irai/packet/handlers/arp_spoofer"
	dhcp4 "github.com/irai/packet/handlers/dhcp4_spoofer"
	dns "github.com/irai/packet/handlers/dns_naming"
	icmp "github.com/irai/packet/handlers/icmp_spoofer"

	"verif/sim/fb"
	"verif/sim/refdec"
	"verif/sim/simnet"
	"verif/sim/simrt"
)

const LeasePath = "/sim/dhcpleases.yaml"

// Out is an outbound frame with its decoding.
type Out struct {
	simrt.OutFrame
	F *refdec.Frame
}

// World is one simulated LAN.
type World struct {
	Cfg   Config
	U     *Universe
	S     *packet.Session
	ARP   *arp.Handler
	ICMP6 *icmp.Handler6
	DHCP  *dhcp4.Handler
	DNS   *dns.DNSHandler

	Start     int64 // virtual ns at session creation
	LoopDone  bool
	LoopExit  func() // called by the loop task when it ends
	Violation func(oracle, key, detail string)

	// C10: receive-buffer discipline and transcript
	SharedBuf bool
	Scribble  bool
	Tx        func(kind, line string)

	Observations int
	ParseErrs    int
	Frames       int
	WireErrs     int
	outSeen      int
	OwnMACSeen   bool
}

func (w *World) NIC() *packet.NICInfo {
	u := w.U
	n := &packet.NICInfo{
		IFI:         &net.Interface{Index: 2, MTU: 1500, Name: "sim0", HardwareAddr: HW(u.MACs[MOwn])},
		HomeLAN4:    u.Home,
		HostAddr4:   packet.Addr{MAC: HW(u.MACs[MOwn]), IP: u.HostIP},
		RouterAddr4: packet.Addr{MAC: HW(u.MACs[MRouter]), IP: u.RouterIP},
	}
	if w.Cfg.HostLLA {
		n.HostLLA = netip.PrefixFrom(u.HostLLA, 64)
	}
	if w.Cfg.HostGUA {
		n.HostGUA = netip.PrefixFrom(u.HostGUA, 64)
	}
	n.RouterLLA = netip.PrefixFrom(u.RouterLLA, 64)
	return n
}

// Quiet sets all library loggers; output is discarded either way.
func (w *World) setLogging() {
	fastlog.DefaultIOWriter = io.Discard
	lvl := fastlog.LevelInfo
	if w.Cfg.Debug {
		lvl = fastlog.LevelDebug
	} else if w.Cfg.LogErrorsOnly {
		lvl = fastlog.LevelError
	}
	packet.Logger.SetLevel(lvl)
	arp.Logger.SetLevel(lvl)
	dhcp4.Logger.SetLevel(lvl)
	dns.Logger.SetLevel(lvl)
	icmp.Logger6.SetLevel(lvl)
}

// New creates the session and the configured handlers (must run inside the driver task).
func New(cfg Config) (*World, error) {
	return NewWith(cfg, nil)
}

// NewWith is New with a step between the creation of the session and of the handlers (an
// application re-applying its capture list at boot, before the DHCP handler loads its leases).
func NewWith(cfg Config, pre func(w *World)) (*World, error) {
	w := &World{Cfg: cfg, U: NewUniverse(cfg), SharedBuf: cfg.ReuseBuf, Scribble: cfg.ReuseBuf}
	w.setLogging()
	if err := w.newSession(); err != nil {
		return nil, err
	}
	if pre != nil {
		pre(w)
	}
	if err := w.newHandlers(); err != nil {
		return nil, err
	}
	return w, nil
}

func (w *World) newSession() error {
	c := packet.Config{Conn: simnet.Conn{}, NICInfo: w.NIC(),
		ProbeDeadline:   time.Duration(w.Cfg.ProbeMin) * time.Minute,
		OfflineDeadline: time.Duration(w.Cfg.OfflineMin) * time.Minute,
		PurgeDeadline:   time.Duration(w.Cfg.PurgeMin) * time.Minute}
	w.Start = simrt.Now()
	s, err := c.NewSession("")
	if err != nil {
		return fmt.Errorf("NewSession: %w", err)
	}
	w.S = s
	return nil
}

func (w *World) DHCPConfig() dhcp4.Config {
	dnsIP := w.U.RouterIP
	if w.Cfg.DNSAlt {
		dnsIP = w.U.AltDNS
	}
	mode := dhcp4.Mode(w.Cfg.DHCPMode)
	c := dhcp4.Config{Mode: mode, NetfilterIP: netip.PrefixFrom(w.U.HostIP, w.Cfg.NFBits), DNSServer: dnsIP}
	if w.Cfg.LeaseFile {
		c.LeaseFilename = LeasePath
	}
	return c
}

// RestartDHCP closes the DHCP handler and constructs a new one on the same session from whatever
// the lease file holds, optionally with another DNS server configured.
func (w *World) RestartDHCP(flipDNS bool) error {
	if w.DHCP != nil {
		w.DHCP.Close()
	}
	if flipDNS {
		w.Cfg.DNSAlt = !w.Cfg.DNSAlt
	}
	var err error
	w.DHCP, err = w.DHCPConfig().New(w.S)
	return err
}

func (w *World) newHandlers() (err error) {
	if w.Cfg.ARP {
		if w.ARP, err = arp.New(w.S); err != nil {
			return fmt.Errorf("arp.New: %w", err)
		}
	}
	if w.Cfg.ICMP6 {
		if w.ICMP6, err = icmp.New6(w.S); err != nil {
			return fmt.Errorf("icmp.New6: %w", err)
		}
	}
	if w.Cfg.DHCP {
		if w.DHCP, err = w.DHCPConfig().New(w.S); err != nil {
			return fmt.Errorf("dhcp.New: %w", err)
		}
	}
	if w.Cfg.DNS {
		w.DNS = dns.VerifNew(w.S)
	}
	return nil
}

// StartLoop starts the packet loop task (a transcription of the loop in examples/*).
func (w *World) StartLoop() {
	simrt.GoHarness(1, func() {
		shared := make([]byte, packet.EthMaxSize)
		for {
			var buf []byte
			if w.SharedBuf {
				buf = shared
			} else {
				buf = make([]byte, packet.EthMaxSize)
			}
			n, _, err := w.S.ReadFrom(buf)
			if err != nil {
				w.LoopDone = true
				if w.LoopExit != nil {
					w.LoopExit()
				}
				return
			}
			for i := n; i < len(buf); i++ { // identical spare capacity in both disciplines
				buf[i] = 0x5c
			}
			w.Frames++
			frame, err := w.S.Parse(buf[:n])
			if err != nil {
				w.ParseErrs++
				w.apiUserReuseBuffer(buf)
				continue
			}
			w.dispatch(frame)
			w.S.Notify(frame)
			w.apiUserReuseBuffer(buf)
		}
	})
}

// apiUserReuseBuffer is what a real read loop's next ReadFrom does to its buffer (a race report
// against this write is the library's: it kept a reference into the caller's packet buffer).
func (w *World) apiUserReuseBuffer(buf []byte) {
	if !w.Scribble {
		return
	}
	for i := range buf {
		buf[i] = byte(0xC3 ^ i*13 ^ w.Frames)
	}
}

func (w *World) dispatch(frame packet.Frame) {
	switch frame.PayloadID {
	case packet.PayloadARP:
		if w.ARP != nil {
			w.ARP.ProcessPacket(frame)
		}
	case packet.PayloadICMP6:
		if w.ICMP6 != nil {
			w.ICMP6.ProcessPacket(frame)
		}
	case packet.PayloadDHCP4:
		if w.DHCP != nil {
			w.DHCP.ProcessPacket(frame)
		}
	case packet.PayloadDNS:
		if w.DNS != nil {
			w.DNS.ProcessDNS(frame)
		}
	case packet.PayloadMDNS, packet.PayloadLLMNR:
		if w.DNS != nil {
			ipv4, ipv6, err := w.DNS.ProcessMDNS(frame)
			if err == nil {
				for _, e := range append(ipv4, ipv6...) {
					if h := w.S.FindIP(e.Addr.IP); h != nil {
						if frame.PayloadID == packet.PayloadLLMNR {
							h.UpdateLLMNRName(e.NameEntry)
						} else {
							h.UpdateMDNSName(e.NameEntry)
						}
					}
				}
			}
		}
	case packet.PayloadNBNS:
		if w.DNS != nil && frame.Host != nil {
			if name, err := w.DNS.ProcessNBNS(frame.Host, frame.Ether(), frame.Payload()); err == nil && name.Name != "" {
				frame.Host.UpdateNBNSName(name)
			}
		}
	case packet.PayloadSSDP:
		if w.DNS != nil && frame.Host != nil {
			if name, _, err := w.DNS.ProcessSSDP(frame.Host, frame.Ether(), frame.Payload()); err == nil && name.Name != "" {
				frame.Host.UpdateSSDPName(name)
			}
		}
	}
}

// Inject delivers a frame to the session's connection now.
func (w *World) Inject(b []byte) { simrt.NetInject(0, b) }

// InjectAfter delivers a frame after d.
func (w *World) InjectAfter(d time.Duration, b []byte) { simrt.NetInject(int64(d), b) }

// Drain empties the notification channel without blocking.
func (w *World) Drain() []packet.Notification {
	var out []packet.Notification
	for {
		select {
		case n, ok := <-w.S.C:
			if !ok {
				return out
			}
			out = append(out, n)
			if w.Tx != nil {
				w.Tx("notification", fmt.Sprintf("%x %s online=%v router=%v dhcp=%q mdns=%q ssdp=%q llmnr=%q nbns=%q", []byte(n.Addr.MAC), n.Addr.IP, n.Online, n.IsRouter,
					n.DHCP4Name.Name, n.MDNSName.Name, n.SSDPName.Name, n.LLMNRName.Name, n.NBNSName.Name))
			}
		default:
			return out
		}
	}
}

// PollOut fetches and decodes the frames written since the last call; every frame passes
// the always-on wire invariant (C07) through check.
func (w *World) PollOut() []Out {
	var out []Out
	for {
		f, ok := simrt.NetPoll()
		if !ok {
			return out
		}
		o := Out{OutFrame: f, F: refdec.Decode(f.Data)}
		w.outSeen++
		if w.Tx != nil {
			w.Tx("frame", fmt.Sprintf("%x", f.Data))
		}
		w.wireInvariant(o)
		out = append(out, o)
	}
}

// wireInvariant is the always-on part of C07.
func (w *World) wireInvariant(o Out) {
	f := o.F
	report := func(key, detail string) {
		w.WireErrs++
		if w.Violation != nil {
			w.Violation("C07.wire", key, fmt.Sprintf("frame seq=%d t=%v task=%d: %s | %s | hex=%x", o.Seq, time.Duration(o.Time), o.Task, detail, f.Describe(), trunc(o.Data, 96)))
		}
	}
	for range f.Notes {
		w.Observations++
	}
	if len(f.Errs) > 0 {
		report(kindOf(f)+":"+wireKey(f.Errs[0]), fmt.Sprintf("%q", f.Errs))
		return
	}
	if f.Src != refdec.MAC(w.U.MACs[MOwn]) {
		report(kindOf(f)+":ether-src", fmt.Sprintf("ethernet source %s is not the interface MAC", f.Src))
	}
}

func trunc(b []byte, n int) []byte {
	if len(b) > n {
		return b[:n]
	}
	return b
}

// wireKey normalises a decoder complaint: addresses and numbers are dropped.
func wireKey(s string) string {
	var words []string
	for _, w := range strings.Fields(s) {
		if strings.ContainsAny(w, "0123456789") {
			continue
		}
		words = append(words, strings.Trim(w, ",:"))
		if len(words) == 8 {
			break
		}
	}
	return strings.Join(words, "-")
}

func firstWords(s string) string {
	n := 0
	for i := 0; i < len(s); i++ {
		if s[i] == ' ' {
			n++
			if n == 4 {
				return s[:i]
			}
		}
		if s[i] >= '0' && s[i] <= '9' {
			return s[:i]
		}
	}
	return s
}

func kindOf(f *refdec.Frame) string {
	switch {
	case f.ARP != nil:
		return "arp"
	case f.DHCP != nil:
		return "dhcp"
	case f.ND != nil:
		return fmt.Sprintf("nd%d", f.ICMP6.Type)
	case f.ICMP6 != nil:
		return "icmp6"
	case f.ICMP4 != nil:
		return "icmp4"
	case f.AppProto != "":
		return f.AppProto
	case f.UDP != nil:
		return "udp"
	case f.IP4 != nil:
		return "ip4"
	case f.IP6 != nil:
		return "ip6"
	case f.EtherType == 0x0806:
		return "arp"
	}
	return "ether"
}

// BackgroundFrame is router-sourced IPv4 traffic with an off-LAN source: it creates no host
// (C04 rules) but keeps the NIC watchdog quiet.
func (w *World) BackgroundFrame() []byte {
	u := w.U
	udp := fb.UDP(40000, 40001, []byte("bg"))
	ip := fb.IPv4(netip.MustParseAddr("8.8.4.4"), u.HostIP, 17, 60, 7, udp)
	return fb.Eth(u.MACs[MOwn], u.MACs[MRouter], 0x0800, ip)
}

// Advance lets d of virtual time pass, injecting background traffic at least every two
// minutes, and settles. after is called after every chunk (nil allowed).
func (w *World) Advance(d time.Duration, after func()) {
	const chunk = 2 * time.Minute
	for d > 0 {
		step := d
		if step > chunk {
			step = chunk
		}
		simrt.Sleep(int64(step))
		d -= step
		w.Inject(w.BackgroundFrame())
		simrt.Settle()
		if after != nil {
			after()
		}
	}
}
