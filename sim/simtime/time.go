// Package simtime replaces package time in rewritten code. Value types are aliases of the
// real ones; everything that reads the clock, blocks or fires uses the simulator's virtual clock.
package simtime

import (
	"time"

	"verif/sim/simrt"
)

type (
	Duration   = time.Duration
	Time       = time.Time
	Month      = time.Month
	Weekday    = time.Weekday
	Location   = time.Location
	ParseError = time.ParseError
)

const (
	Layout      = time.Layout
	ANSIC       = time.ANSIC
	UnixDate    = time.UnixDate
	RubyDate    = time.RubyDate
	RFC822      = time.RFC822
	RFC822Z     = time.RFC822Z
	RFC850      = time.RFC850
	RFC1123     = time.RFC1123
	RFC1123Z    = time.RFC1123Z
	RFC3339     = time.RFC3339
	RFC3339Nano = time.RFC3339Nano
	Kitchen     = time.Kitchen
	Stamp       = time.Stamp
	StampMilli  = time.StampMilli
	StampMicro  = time.StampMicro
	StampNano   = time.StampNano
	DateTime    = time.DateTime
	DateOnly    = time.DateOnly
	TimeOnly    = time.TimeOnly

	Nanosecond  = time.Nanosecond
	Microsecond = time.Microsecond
	Millisecond = time.Millisecond
	Second      = time.Second
	Minute      = time.Minute
	Hour        = time.Hour

	January   = time.January
	February  = time.February
	March     = time.March
	April     = time.April
	May       = time.May
	June      = time.June
	July      = time.July
	August    = time.August
	September = time.September
	October   = time.October
	November  = time.November
	December  = time.December

	Sunday    = time.Sunday
	Monday    = time.Monday
	Tuesday   = time.Tuesday
	Wednesday = time.Wednesday
	Thursday  = time.Thursday
	Friday    = time.Friday
	Saturday  = time.Saturday
)

var (
	UTC   = time.UTC
	Local = time.Local
)

var (
	Date                   = time.Date
	Unix                   = time.Unix
	UnixMilli              = time.UnixMilli
	UnixMicro              = time.UnixMicro
	Parse                  = time.Parse
	ParseInLocation        = time.ParseInLocation
	ParseDuration          = time.ParseDuration
	FixedZone              = time.FixedZone
	LoadLocation           = time.LoadLocation
	LoadLocationFromTZData = time.LoadLocationFromTZData
)

// Epoch is the virtual wall-clock time at the start of every simulated run.
var Epoch = time.Date(2026, time.March, 1, 12, 0, 0, 0, time.UTC)

func at(ns int64) Time { return Epoch.Add(Duration(ns)) }

func Now() Time             { return at(simrt.Now()) }
func Since(t Time) Duration { return Now().Sub(t) }
func Until(t Time) Duration { return t.Sub(Now()) }

func Sleep(d Duration) {
	if !simrt.Active() {
		return
	}
	simrt.Sleep(int64(d))
}

type Ticker struct {
	C    <-chan Time
	c    chan Time
	id   uint32
	real *time.Ticker
}

func feed(c chan Time) func(int64) bool {
	return func(now int64) bool {
		select {
		case c <- at(now):
			return true
		default:
			return false
		}
	}
}

func NewTicker(d Duration) *Ticker {
	if d <= 0 {
		panic("non-positive interval for NewTicker")
	}
	if !simrt.Active() {
		r := time.NewTicker(d)
		return &Ticker{C: r.C, real: r}
	}
	c := make(chan Time, 1)
	t := &Ticker{C: c, c: c}
	t.id = simrt.StartTimer(int64(d), int64(d), false, feed(c))
	return t
}

func (t *Ticker) Stop() {
	if t.real != nil {
		t.real.Stop()
		return
	}
	simrt.TimerStop(t.id)
}

func (t *Ticker) Reset(d Duration) {
	if d <= 0 {
		panic("non-positive interval for Ticker.Reset")
	}
	if t.real != nil {
		t.real.Reset(d)
		return
	}
	simrt.TimerReset(t.id, int64(d), int64(d))
}

func Tick(d Duration) <-chan Time {
	if d <= 0 {
		return nil
	}
	return NewTicker(d).C
}

type Timer struct {
	C    <-chan Time
	c    chan Time
	id   uint32
	real *time.Timer
	stop chan struct{}
	f    func()
}

func NewTimer(d Duration) *Timer {
	if !simrt.Active() {
		r := time.NewTimer(d)
		return &Timer{C: r.C, real: r}
	}
	c := make(chan Time, 1)
	t := &Timer{C: c, c: c}
	if d < 0 {
		d = 0
	}
	t.id = simrt.StartTimer(int64(d), 0, false, feed(c))
	return t
}

func After(d Duration) <-chan Time {
	if !simrt.Active() {
		return time.After(d)
	}
	c := make(chan Time, 1)
	if d < 0 {
		d = 0
	}
	simrt.StartTimer(int64(d), 0, true, feed(c))
	return c
}

func AfterFunc(d Duration, f func()) *Timer {
	if !simrt.Active() {
		return &Timer{real: time.AfterFunc(d, f)}
	}
	t := NewTimer(d)
	t.f = f
	t.C = nil
	t.arm()
	return t
}

func (t *Timer) arm() {
	stop := make(chan struct{})
	t.stop = stop
	c := t.c
	f := t.f
	simrt.Go(-10, func() {
		for {
			select {
			case <-stop:
				return
			default:
			}
			select {
			case <-c:
				simrt.Progress()
				f()
				return
			default:
			}
			simrt.Park(-8)
		}
	})
}

func (t *Timer) Stop() bool {
	if t.real != nil {
		return t.real.Stop()
	}
	was := simrt.TimerStop(t.id)
	if t.f != nil && t.stop != nil {
		close(t.stop)
		t.stop = nil
		simrt.Progress()
	}
	return was
}

func (t *Timer) Reset(d Duration) bool {
	if t.real != nil {
		return t.real.Reset(d)
	}
	if d < 0 {
		d = 0
	}
	was := simrt.TimerReset(t.id, int64(d), 0)
	if t.f != nil && t.stop == nil {
		t.arm()
	}
	return was
}
