// Package simcrand replaces crypto/rand in rewritten code: bytes come from the choice tape.
package simcrand

import (
	crand "crypto/rand"
	"io"
	"math/big"

	"verif/sim/simrt"
)

type reader struct{}

func (reader) Read(p []byte) (int, error) {
	if !simrt.Active() {
		for i := range p {
			p[i] = byte(i*37 + 11)
		}
		return len(p), nil
	}
	for i := range p {
		p[i] = byte(simrt.Choose(256, 6))
	}
	return len(p), nil
}

var Reader io.Reader = reader{}

func Read(b []byte) (int, error)                      { return io.ReadFull(Reader, b) }
func Int(_ io.Reader, max *big.Int) (*big.Int, error) { return crand.Int(Reader, max) }
func Prime(_ io.Reader, bits int) (*big.Int, error)   { return crand.Prime(Reader, bits) }
func Text() string                                    { return "SIMULATEDRANDOMTEXT0000000" }
